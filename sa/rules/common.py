"""Helpers shared by the rule families."""

from __future__ import annotations

import ast

from .. import terms as tm
from ..model import AnalysisError
from ..report import Ob
from .. import symeval

# ------------------------------------------------------------------- PM-DYN

DYN_NAMES = {"exec", "eval", "setattr", "globals", "__import__", "delattr", "vars", "locals", "compile"}


def rule_pm_dyn(ctx):
    """No dynamic code in the analysed modules; otherwise the model is unsound."""
    P = ctx.program
    bad = []
    for m in P.modules.values():
        modaliases = {a for a, imp in m.imports.items() if imp[0] == "mod" or (imp[0] == "name" and imp[2] in P.modules)}
        for n in ast.walk(m.tree):
            if isinstance(n, ast.Call) and isinstance(n.func, ast.Name) and n.func.id in DYN_NAMES:
                bad.append((m, n, "call of %s()" % n.func.id))
            if isinstance(n, (ast.Import, ast.ImportFrom)):
                names = [a.name for a in n.names]
                if any(x.split(".")[0] == "importlib" for x in names) or getattr(n, "module", None) == "importlib":
                    bad.append((m, n, "importlib"))
            if isinstance(n, (ast.Assign, ast.AugAssign)):
                tgs = n.targets if isinstance(n, ast.Assign) else [n.target]
                for tg in tgs:
                    if isinstance(tg, ast.Attribute) and isinstance(tg.value, ast.Name) and tg.value.id in modaliases:
                        bad.append((m, n, "assignment to attribute of module %s" % tg.value.id))
    if bad:
        m, n, why = bad[0]
        raise AnalysisError("PM-DYN", "dynamic construct (%s) at mir_eval/%s.py:%d: the program model cannot be trusted" % (why, m.name, n.lineno))
    yield Ob("PM-DYN", "package", "mir_eval/", True, "no exec/eval/setattr/globals/importlib/module monkey-patching in %d modules" % len(P.modules))


# --------------------------------------------------------------- term helpers


def call_name(t):
    if t.op == "call":
        return tm.callee_name(t.a[0])
    return None


def call_args(t):
    return t.a[1]


def call_kw(t, k, default=None):
    for n, v in t.a[2]:
        if n == k:
            return v
    return default


def is_call(t, name):
    return t.op == "call" and tm.callee_name(t.a[0]) == name


def strip_numeric(t):
    """Drop wrappers that do not change a count/number: int(), np.int64() ..."""
    while True:
        if t.op == "call" and call_name(t) in ("builtins.int", "np.int64", "builtins.float") and len(t.a[1]) == 1:
            t = t.a[1][0]
            continue
        return t


def count_form(t):
    """('len'|'size'|'deep', base) when ``t`` is a count of a collection."""
    t = strip_numeric(t)
    if t.op == "call":
        n = call_name(t)
        if n == "builtins.len" and len(t.a[1]) == 1:
            return ("len", t.a[1][0])
        if n in ("pattern._n_onset_midi",) and len(t.a[1]) == 1:
            return ("deep", t.a[1][0])
        if n == "np.size" and len(t.a[1]) == 1:
            return ("size", t.a[1][0])
    if t.op == "sub" and t.a[0].op == "attr" and t.a[0].a[1] == "shape" and tm.is_const(t.a[1], 0):
        return ("len", t.a[0].a[0])
    if t.op == "attr" and t.a[1] == "size":
        return ("size", t.a[0])
    return None


def decompose(cond, pol, out):
    """Flatten a guard into atomic (term, polarity) facts that must hold."""
    if cond.op == "un" and cond.a[0] == "not":
        decompose(cond.a[1], not pol, out)
        return
    if cond.op == "bool":
        if cond.a[0] == "or" and not pol:
            for x in cond.a[1:]:
                decompose(x, False, out)
            return
        if cond.a[0] == "and" and pol:
            for x in cond.a[1:]:
                decompose(x, True, out)
            return
    # min(a, b, ...) == 0 is false for counts  <=>  every count is non-zero
    if cond.op == "cmp" and cond.a[0] in ("==", "!=") and (pol is (cond.a[0] == "!=")):
        for mn, z in ((cond.a[1], cond.a[2]), (cond.a[2], cond.a[1])):
            if tm.is_const(z, 0) and mn.op == "call" and call_name(mn) in ("builtins.min", "np.min", "np.minimum"):
                items = list(mn.a[1])
                if len(items) == 1 and items[0].op in ("list", "tuple"):
                    items = list(items[0].a)
                if len(items) >= 2 and all(count_form(x) is not None for x in items):
                    for x in items:
                        decompose(tm.cmp("==", x, tm.const(0)), False, out)
                    return
    # a * b == 0 is false  <=>  a != 0 and b != 0 ;  a * b != 0 is true likewise
    if cond.op == "cmp" and cond.a[0] in ("==", "!=") and (pol is (cond.a[0] == "!=")):
        for prod, z in ((cond.a[1], cond.a[2]), (cond.a[2], cond.a[1])):
            if tm.is_const(z, 0) and prod.op == "bin" and prod.a[0] == "*":
                for fac in (prod.a[1], prod.a[2]):
                    decompose(tm.cmp("==", fac, tm.const(0)), False, out)
                return
    out.append((cond, pol))


def facts(pc):
    out = []
    for c, p in symeval.pc_conds(pc):
        decompose(c, p, out)
    return out


def _num(t):
    if t.op == "const" and isinstance(t.a[0], (int, float)) and not isinstance(t.a[0], bool):
        return float(t.a[0])
    return None


def positive_facts(pc):
    """Terms X for which the path condition implies X > 0 (X non-zero for counts)."""
    pos = []
    for c, p in facts(pc):
        if c.op == "cmp":
            op, l, r = c.a
            ln, rn = _num(l), _num(r)
            if op == "==" and not p:
                if ln == 0:
                    pos.append(r)
                elif rn == 0:
                    pos.append(l)
            elif op == "!=" and p:
                if ln == 0:
                    pos.append(r)
                elif rn == 0:
                    pos.append(l)
            elif op == "<" and p and ln is not None and ln >= 0:
                pos.append(r)  # k < X, k >= 0
            elif op == "<=" and p and ln is not None and ln > 0:
                pos.append(r)
            elif op == "<=" and not p and rn is not None and rn >= 0:
                pos.append(l)  # not (X <= k)  ->  X > k >= 0
            elif op == "<" and not p and rn is not None and rn > 0:
                pos.append(l)  # not (X < k) -> X >= k > 0
        else:
            if p:
                pos.append(c)  # truthiness: `if normalizer:`
    return pos


def nonempty_bases(pc):
    """[(kind, base)] of collections the path condition proves non-empty."""
    out = []
    for x in positive_facts(pc):
        cf = count_form(x)
        if cf is not None:
            out.append(cf)
        else:
            out.append(("truthy", x))
    return out


def role_of(name):
    n = name.lower()
    if n.startswith("ref") or n.startswith("reference"):
        return "R"
    if n.startswith("est") or n.startswith("estimated"):
        return "E"
    return None


def roles(t):
    out = set()
    for p in tm.params_of(t):
        r = role_of(p)
        if r:
            out.add(r)
    return out


def counterpart(name):
    for a, b in (("reference_", "estimated_"), ("ref_", "est_"), ("reference", "estimated"), ("ref", "est")):
        if name.startswith(a):
            return b + name[len(a) :]
        if name.startswith(b):
            return a + name[len(b) :]
    return None


def swap_roles(t, func):
    """Exchange every R parameter with its E counterpart (by name) in ``t``."""
    names = set(func.all_params)

    def f(x):
        if x.op == "param":
            c = counterpart(x.a[0])
            if c is not None and c in names:
                return tm.param(c)
            return x
        return None

    return tm.rebuild(t, f)


def lit(t):
    """Python literal of a constant term, else raise."""
    if t.op == "const":
        return t.a[0]
    if t.op == "un" and t.a[0] == "-":
        return -lit(t.a[1])
    raise ValueError("not a literal")


def is_lit(t):
    try:
        lit(t)
        return True
    except ValueError:
        return False


def ob(rule, func_or_loc, construct, ok, what, node=None, detail=None):
    if isinstance(func_or_loc, str):
        loc = func_or_loc
    else:
        loc = func_or_loc.loc(node)
    return Ob(rule, construct, loc, ok, what, detail)


def need(cond, rule, why):
    if not cond:
        raise AnalysisError(rule, why)


def sole_return(summ, rule):
    need(len(summ.returns) >= 1, rule, "%s has no return statement" % summ.func.qual)
    return summ.returns


def return_components(summ, rule):
    """Per return site: list of component terms (tuple returns are split)."""
    out = []
    for r in summ.returns:
        t = r.term
        if t.op == "tuple":
            out.append((r, list(t.a)))
        else:
            out.append((r, [t]))
    return out


def sites_in(summ, kind):
    return [s for s in summ.sites if s.kind == kind]


def find_subterms(t, pred):
    return [x for x in tm.walk(t) if pred(x)]


def resolve_ite_free(t):
    """All leaves of nested ite/loop merges: the set of alternative values."""
    out = []
    seen = set()

    def rec(x):
        if x.id in seen:
            return
        seen.add(x.id)
        if x.op == "ite":
            rec(x.a[1])
            rec(x.a[2])
        elif x.op == "loop":
            rec(x.a[2])
            rec(x.a[3])
        elif x.op == "loopvar":
            rec(x.a[2])
        else:
            out.append(x)

    rec(t)
    return out


def factor_ite(t):
    """(A*B if c else A*B*C)  ->  A*B*(True if c else C): the factors two alternatives of a product share are pulled
    out of the conditional (products over `*` / `&`)."""
    if t.op != "ite":
        return t

    def fs(x):
        if x.op == "bin" and x.a[0] in ("*", "&"):
            return fs(x.a[1]) + fs(x.a[2])
        return [x]

    fa, fb = fs(t.a[1]), fs(t.a[2])
    common = [x for x in fa if any(x is y for y in fb)]
    if not common:
        return t
    ra = [x for x in fa if not any(x is y for y in common)]
    rb = [x for x in fb if not any(x is y for y in common)]

    def prod(xs):
        if not xs:
            return tm.const(True)
        out = xs[0]
        for x in xs[1:]:
            out = tm.binop("*", out, x)
        return out

    rest = tm.ite(t.a[0], prod(ra), prod(rb))
    out = prod(common)
    return out if (not ra and not rb) else tm.binop("*", out, rest)


def lift_ite(t):
    """F(ite(c, a, b)) -> ite(c, F(a), F(b)) when ``t`` contains exactly one conditional subterm (else ``t``)."""
    if t.op == "ite":
        return t
    ites = {}
    for x in tm.walk(t):
        if x.op == "ite":
            ites[x.id] = x
    if len(ites) != 1:
        return t
    i = next(iter(ites.values()))
    a = tm.rebuild(t, lambda x: i.a[1] if x is i else None)
    b = tm.rebuild(t, lambda x: i.a[2] if x is i else None)
    return tm.ite(i.a[0], a, b)


def lift_outer_ite(t):
    """like lift_ite, for the one conditional that is not nested inside another conditional (helpers evaluated in place
    bring their own conditionals with them)"""
    if t.op == "ite":
        return t
    ites = {}
    for x in tm.walk(t):
        if x.op == "ite":
            ites[x.id] = x
    inner = set()
    for x in ites.values():
        for y in tm.walk(x):
            if y.op == "ite" and y is not x:
                inner.add(y.id)
    outer = [x for k, x in ites.items() if k not in inner]
    if len(outer) != 1:
        return t
    i = outer[0]
    a = tm.rebuild(t, lambda x: i.a[1] if x is i else None)
    b = tm.rebuild(t, lambda x: i.a[2] if x is i else None)
    return tm.ite(i.a[0], a, b)


def kwargs_chain(t):
    """Walk an upd-chain over a **kwargs dict: yields (how, key_term, val_term, cond_stack)."""
    out = []

    def rec(x, conds):
        if x.op == "upd":
            rec(x.a[0], conds)
            out.append((x.a[1], x.a[2], x.a[3], tuple(conds)))
        elif x.op == "ite":
            rec(x.a[1], conds + [(x.a[0], True)])
            rec(x.a[2], conds + [(x.a[0], False)])
        elif x.op in ("loop", "loopvar"):
            pass
        elif x.op == "call" and call_name(x) == "builtins.dict" and len(x.a[1]) == 1 and any(k == "**" for k, _ in x.a[2]) and x.a[1][0].op == "dict":
            # dict({key: value}, **kwargs): the caller's keywords win; the literal entries are only defaults
            for k, v in x.a[2]:
                if k == "**":
                    rec(v, conds)
            for kv in x.a[1][0].a:
                out.append(("method:setdefault", tm.none(), tm.tup([kv.a[0], kv.a[1]]), tuple(conds)))
            for k, v in x.a[2]:
                if k != "**":
                    out.append(("setitem", tm.const(k), v, tuple(conds)))
        elif x.op == "call" and call_name(x) == "builtins.dict" and len(x.a[1]) == 1:
            # dict(kwargs, key=value, ...): a copy of the chain with the keywords stored last
            rec(x.a[1][0], conds)
            for k, v in x.a[2]:
                if k != "**":
                    out.append(("setitem", tm.const(k), v, tuple(conds)))

    rec(t, [])
    return out


def _canon_cond(c):
    """(condition in the orientation tm.ite uses, flipped?)"""
    flip = False
    while c.op == "un" and c.a[0] == "not":
        c = c.a[1]
        flip = not flip
    if c.op == "cmp" and c.a[0] in ("isnot", "notin", "!="):
        c = tm.cmp({"isnot": "is", "notin": "in", "!=": "=="}[c.a[0]], c.a[1], c.a[2])
        flip = not flip
    return c, flip


def positive_term(den, pc, depth=0):
    """Does the path condition prove ``den`` > 0 / non-zero?  Handles the same term being
    tested, a floored denominator max(k, .) with k > 0, a non-zero literal, and the
    if/else form where each arm established the fact for its own alternative."""
    den = strip_numeric(den)
    n = _num(den)
    if n is not None:
        return n != 0
    if den.op == "call" and call_name(den) in ("builtins.max", "np.maximum", "np.max") and den.a[1]:
        items = den.a[1]
        if len(items) == 1 and items[0].op in ("list", "tuple"):
            items = items[0].a
        for x in items:
            v = _num(x)
            if v is not None and v > 0:
                return True
    pos = [strip_numeric(x) for x in positive_facts(pc)]
    if any(x is den for x in pos):
        return True
    if den.op == "ite" and depth < 4:
        c, a, b = den.a
        for it in symeval.pc_either(pc):
            c2, flip = _canon_cond(it[1])
            if c2 is c:
                ea, eb = (it[3], it[2]) if flip else (it[2], it[3])
                if positive_term(a, ea, depth + 1) and positive_term(b, eb, depth + 1):
                    return True
        # the enclosing branch condition itself decides which alternative is live
        for cc, pol in symeval.pc_conds(pc):
            c2, flip = _canon_cond(cc)
            if c2 is c:
                if flip:
                    pol = not pol
                return positive_term(a if pol else b, pc, depth + 1)
    return False


def linear_form(t, depth=0):
    """Flatten +, -, unary minus and constant multiples into {atom term id: (coef, atom)}."""
    out = {}

    def add(x, c):
        if x.op == "bin" and x.a[0] == "+":
            add(x.a[1], c)
            add(x.a[2], c)
        elif x.op == "bin" and x.a[0] == "-":
            add(x.a[1], c)
            add(x.a[2], -c)
        elif x.op == "un" and x.a[0] == "-":
            add(x.a[1], -c)
        elif x.op == "bin" and x.a[0] == "*" and _num(x.a[1]) is not None:
            add(x.a[2], c * _num(x.a[1]))
        elif x.op == "bin" and x.a[0] == "*" and _num(x.a[2]) is not None:
            add(x.a[1], c * _num(x.a[2]))
        else:
            k = x.id
            cur = out.get(k, (0.0, x))
            out[k] = (cur[0] + c, x)

    add(t, 1.0)
    return {k: v for k, v in out.items() if abs(v[0]) > 1e-12}


def linear_sum(forms):
    tot = {}
    for f in forms:
        for k, (c, x) in f.items():
            cur = tot.get(k, (0.0, x))
            tot[k] = (cur[0] + c, x)
    return {k: v for k, v in tot.items() if abs(v[0]) > 1e-12}


# ------------------------------------------------------------- sharing rules
def shared(modname, fn_name, new_rule, keep=None):
    """A rule of another property re-issued under this property's id (optionally only the constructs `keep` accepts)."""

    def rule(ctx):
        import importlib

        mod = importlib.import_module("sa.rules.%s" % modname)
        for o in getattr(mod, fn_name)(ctx):
            if keep is None or keep(o):
                o.rule = new_rule
                yield o

    rule.__doc__ = "shared with %s.%s" % (modname, fn_name)
    return rule


def reach_from(ctx, files):
    """functions reachable (through resolved repo calls and helpers evaluated in place) from the public functions of the
    given modules: what a call of one of the property's entry points can execute"""
    key = ("reach", tuple(files))
    if key in ctx.cache:
        return ctx.cache[key]
    work = []
    for f in ctx.program.all_funcs(include_new=True):
        if f.module.path.split("mir_eval/")[-1] in files and not f.qual.split(".")[-1].startswith("_") and f.parent is None:
            work.append(f.qual)
    seen = set()
    while work:
        q = work.pop()
        if q in seen or not ctx.program.has_func(q):
            continue
        seen.add(q)
        s = ctx.S.get(q)
        for c in s.calls():
            if c.fn is not None and c.fn.op in ("func", "localfunc"):
                work.append(tm.callee_name(c.fn))
        for h in getattr(s, "inlined", ()):
            work.append(h)
    ctx.cache[key] = seen
    return seen


def shared_reach(modname, fn_name, new_rule, files):
    """A purity / state rule of another property re-issued for the functions this property's entry points can reach:
    hidden state or an in-place write there makes the property's universally quantified statement depend on history."""

    def rule(ctx):
        import importlib

        reach = reach_from(ctx, files)
        mod = importlib.import_module("sa.rules.%s" % modname)
        for o in getattr(mod, fn_name)(ctx):
            fq = o.construct.split(":")[0]
            if fq in reach:
                o.rule = new_rule
                yield o

    rule.__doc__ = "shared with %s.%s, restricted to the call-graph closure of %s" % (modname, fn_name, ", ".join(files))
    return rule


# ---------------------------------------------------------------- dtype flow
_INHERIT = {"np.array", "np.copy", ".copy", "np.asarray", "np.zeros_like", "np.empty_like", "np.ones_like", "np.full_like", "np.asanyarray"}
_REAL_FUNCS = {"np.log", "np.log2", "np.log10", "np.exp", "np.sqrt", "np.mean", "np.median", "np.divide", "np.true_divide", "np.interp", "np.std", "np.var", "np.average"}


def _origin(t):
    n = 0
    while t is not None and t.op in ("upd", "loop", "loopvar", "ite") and n < 60:
        n += 1
        if t.op == "upd":
            t = t.a[0]
        elif t.op in ("loop", "loopvar"):
            t = t.a[2]
        else:
            t = t.a[1]
    return t


def _int_preserving(v, buf_origin):
    """is the stored value certainly representable in the buffer's (inherited) dtype?  Integer / Boolean literals and
    elements of the buffer or of its source array are; anything computed with real-valued operations is not."""
    v0 = v
    if v.op == "const":
        c = v.a[0]
        return isinstance(c, (bool, int)) or c is None or (isinstance(c, float) and c.is_integer())
    src = None
    if buf_origin is not None and buf_origin.op == "call" and buf_origin.a[1]:
        src = buf_origin.a[1][0]
    for x in tm.walk(v0):
        if x.op == "const" and isinstance(x.a[0], float) and not x.a[0].is_integer():
            return False
        if x.op == "bin" and x.a[0] in ("/", "**"):
            return False
        if x.op == "call" and call_name(x) in _REAL_FUNCS:
            return False
        if x.op == "param":
            # another input flows in: its dtype need not be the buffer's
            if src is None or x.a[0] not in tm.params_of(src):
                return False
    return True


def rule_dtypeflow(R, modules=None):
    """Integer-valued inputs (lists of ints, integer arrays) are valid wherever numbers are: a buffer that inherits its
    dtype from an input (np.array(x), x.copy(), np.zeros_like(x), ...) may only be written with integer literals or
    with elements of that same input, and no array is cast to the dtype of another input.  A real-valued result stored
    into such a buffer is silently truncated for integer input and bit-identical for float input - which is why the
    test-suite never sees it."""

    def rule(ctx):
        n = 0
        per = {}
        for f in ctx.program.all_funcs():
            mod = f.qual.split(".")[0]
            if mod in ("sonify", "display") or (modules is not None and mod not in modules):
                continue
            s = ctx.S.get(f.qual)
            for m in s.by_kind("mutate"):
                if m.how != "setitem" or m.d.get("old") is None:
                    continue
                o = _origin(m.old)
                if o is None or o.op != "call" or call_name(o) not in _INHERIT:
                    continue
                if any(k == "dtype" for k, _ in o.a[2]) or (call_name(o) in ("np.array", "np.asarray") and len(o.a[1]) > 1):
                    continue
                if not tm.params_of(o):
                    continue
                n += 1
                per[(f.qual, m.root)] = per.get((f.qual, m.root), 0) + 1
                k = per[(f.qual, m.root)]
                good = _int_preserving(m.val, o)
                yield ob(R, f, "%s:store[%s]%s" % (f.qual, m.root, "" if k == 1 else "#%d" % k), good, "the buffer %s = %s inherits the dtype of its input and is written with %s" % (m.root, tm.show(o, 2), "an integer literal or elements of that input" if good else "%s - a real-valued / foreign result that is truncated when the caller passes an integer array" % tm.show(m.val, 3)), node=m.node)
            for m in s.by_kind("mutate"):
                # np.divide(x, r, out=x) and friends: a real-valued ufunc result written into a buffer whose dtype comes
                # from an input (x = velocities - velocities.min() is an integer array for integer input) raises
                # UFuncTypeError / truncates exactly for integer input
                if not m.how.startswith("out:") or m.d.get("old") is None:
                    continue
                fn_ = m.how[4:]
                if fn_ not in ("np.divide", "np.true_divide", "np.log", "np.log2", "np.log10", "np.sqrt", "np.exp", "np.mean"):
                    continue
                buf = m.d.get("old")
                base_ = buf
                while base_.op == "bin" and base_.a[0] in ("+", "-", "*") and (is_lit(base_.a[1]) or is_lit(base_.a[2]) or tm.params_of(base_.a[1]) == tm.params_of(base_.a[2])):
                    base_ = base_.a[1] if tm.params_of(base_.a[1]) else base_.a[2]
                inherits = base_.op == "param" or (base_.op == "call" and call_name(base_) in _INHERIT and not any(k == "dtype" for k, _ in base_.a[2]) and tm.params_of(base_))
                if inherits and tm.params_of(buf):
                    n += 1
                    yield ob(R, f, "%s:out[%s]" % (f.qual, ",".join(sorted(tm.params_of(buf)))), False, "%s(..., out=<array with the dtype of its input %s>) stores a real-valued result in place: with integer input the ufunc cannot cast its output (UFuncTypeError) or truncates it" % (fn_, tm.show(buf, 2)), node=m.node)
            for c in s.calls():
                # np.pad / np.insert / np.full_like keep the dtype of the array they start from: a value that is not an
                # element of that array or an integer literal is cast to it (a fractional duration padded onto integer
                # time stamps is truncated)
                if c.callee in ("np.pad", "np.insert", "np.full_like") and c.args:
                    arr = c.args[0]
                    src_ = arr
                    while src_.op == "call" and call_name(src_) in _INHERIT and src_.a[1] and not any(k == "dtype" for k, _ in src_.a[2]):
                        src_ = src_.a[1][0]
                    if src_.op == "param" and not any(k == "dtype" for k, _ in c.kw):
                        vals = []
                        if c.callee == "np.pad":
                            v_ = dict(c.kw).get("constant_values")
                            if v_ is not None:
                                vals.append(v_)
                        elif c.callee == "np.insert" and len(c.args) >= 3:
                            vals.append(c.args[2])
                        elif c.callee == "np.full_like" and len(c.args) >= 2:
                            vals.append(c.args[1])
                        for v_ in vals:
                            good_ = (v_.op == "sub" and (v_.a[0] is arr or v_.a[0] is src_)) or _int_preserving(v_, arr) or (is_lit(v_) and isinstance(lit(v_), (int, bool))) or (is_lit(v_) and isinstance(lit(v_), float) and float(lit(v_)).is_integer())
                            n += 1
                            yield ob(R, f, "%s:%s[%s]" % (f.qual, c.callee.split(".")[-1], ",".join(sorted(tm.params_of(arr)))), good_, "%s keeps the dtype of %s and receives %s" % (c.callee, tm.show(arr, 2), "an integer literal or an element of that array" if good_ else "%s, which is cast to that dtype: truncated when the caller passes an integer array" % tm.show(v_, 3)), node=c.node)
                if c.callee in ("np.asarray", "np.array", ".astype", "np.asanyarray", "np.zeros", "np.empty", "np.full"):
                    dt = dict(c.kw).get("dtype")
                    if dt is None and c.callee == ".astype" and len(c.args) > 1:
                        dt = c.args[1]
                    if dt is not None and dt.op == "attr" and dt.a[1] == "dtype" and tm.params_of(dt.a[0]):
                        data = c.args[0] if c.args else None
                        other = data is None or not (tm.params_of(dt.a[0]) <= tm.params_of(data)) or not tm.params_of(data)
                        if other:
                            yield ob(R, f, "%s:cast-to-dtype-of[%s]" % (f.qual, ",".join(sorted(tm.params_of(dt.a[0])))), False, "%s is cast to the dtype of another input (%s): an integer array on that side truncates the values on this side" % (tm.show(data, 2) if data is not None else "a new array", tm.show(dt, 2)), node=c.node)
        yield ob(R, "mir_eval/", "dtype-flow:census", True, "%d stores into input-typed buffers examined" % n)

    return rule


def path_shape_equalities(pc):
    """[(kept, replaced)] for every `a.shape != b.shape` test that is false (or `==` test that is true) on the path: a
    validation guard has established that the two parameters have one shape, so either spelling denotes the same value.
    The reference-side spelling is kept."""
    out = []
    for c, pol in symeval.pc_conds(pc):
        if c.op != "cmp" or not ((c.a[0] == "!=" and not pol) or (c.a[0] == "==" and pol)):
            continue
        x, y = c.a[1], c.a[2]
        if all(z.op == "attr" and z.a[1] == "shape" and z.a[0].op == "param" for z in (x, y)) and x is not y:
            if roles(y) == {"R"} and roles(x) != {"R"}:
                x, y = y, x
            out.append((x, y))
    return out


def rewrite_equal(t, pairs):
    if not pairs:
        return t
    m = {b.id: a for a, b in pairs}
    for a, b in pairs:
        # x.shape[0] is spelled len(x): equal shapes are equal lengths
        if a.op == "attr" and b.op == "attr" and a.a[1] == "shape" and b.a[1] == "shape":
            m[tm.call(tm.mk("builtin", "len"), (b.a[0],)).id] = tm.call(tm.mk("builtin", "len"), (a.a[0],))
    return tm.rebuild(t, lambda z: m.get(z.id))


# ------------------------------------------------------------------ EXTNAMES
_EXT_CACHE = {}
PKG_NAME = "mir_eval"


def _resolve_external(dotted):
    """(ok, detail): does the dotted name `pkg.a.b` denote something in the installed third-party / standard library?
    Only the *library* is imported (never mir_eval); the lookup is the one Python itself performs when the expression
    is evaluated: attribute by attribute, with `import pkg.a` as the fallback for sub-modules."""
    import importlib

    if dotted in _EXT_CACHE:
        return _EXT_CACHE[dotted]
    parts = dotted.split(".")
    try:
        obj = importlib.import_module(parts[0])
    except Exception as e:  # the root package itself is absent: nothing can be said (not this rule's business)
        _EXT_CACHE[dotted] = (None, "package %s is not importable here (%s)" % (parts[0], type(e).__name__))
        return _EXT_CACHE[dotted]
    res = (True, "")
    for i in range(1, len(parts)):
        try:
            obj = getattr(obj, parts[i])
        except AttributeError:
            try:
                obj = importlib.import_module(".".join(parts[: i + 1]))
            except Exception:
                res = (False, "%s has no attribute %r (installed %s %s)" % (".".join(parts[:i]), parts[i], parts[0], getattr(importlib.import_module(parts[0]), "__version__", "?")))
                break
        except Exception:
            break  # a lazy attribute that fails for another reason: undecided, treated as resolved
    _EXT_CACHE[dotted] = res
    return res


def rule_extnames(ctx, rule, files):
    """Every dotted name rooted at an imported external module (`np.linalg.LinAlgError`, `scipy.signal.fftconvolve`,
    `collections.OrderedDict`) resolves in the installed library.  A name that does not resolve raises AttributeError
    the moment the expression is evaluated - inside an `except <name>:` clause that means the handled condition
    escapes as an unrelated exception exactly on the inputs the handler was written for."""
    n = 0
    vers = {}
    for mname in sorted(ctx.program.modules):
        mod = ctx.program.modules[mname]
        if files is not None and mod.path.split("mir_eval/")[-1] not in files:
            continue
        ext = {}
        for alias, imp in mod.imports.items():
            if imp[0] == "mod" and not imp[1].startswith(PKG_NAME):
                ext[alias] = imp[1]
            elif imp[0] == "name" and not imp[1].startswith(PKG_NAME) and imp[1] not in ("__future__",):
                ext[alias] = imp[1] + "." + imp[2]
        # names re-bound inside a function (parameter or assignment) are not the module
        parents = {}
        for node in ast.walk(mod.tree):
            for ch in ast.iter_child_nodes(node):
                parents[ch] = node
        shadow = {}
        for fn in ast.walk(mod.tree):
            if isinstance(fn, (ast.FunctionDef, ast.Lambda)):
                names = {a.arg for a in fn.args.args + fn.args.kwonlyargs + getattr(fn.args, "posonlyargs", [])}
                if fn.args.vararg:
                    names.add(fn.args.vararg.arg)
                if fn.args.kwarg:
                    names.add(fn.args.kwarg.arg)
                for x in ast.walk(fn):
                    if isinstance(x, ast.Name) and isinstance(x.ctx, ast.Store):
                        names.add(x.id)
                shadow[fn] = names
        seen = set()
        for node in ast.walk(mod.tree):
            if not isinstance(node, ast.Attribute) or isinstance(parents.get(node), ast.Attribute):
                continue  # only maximal chains
            chain = []
            x = node
            while isinstance(x, ast.Attribute):
                chain.append(x.attr)
                x = x.value
            if not isinstance(x, ast.Name) or x.id not in ext or not isinstance(node.ctx, ast.Load):
                continue
            p = node
            shadowed = False
            while p in parents:
                p = parents[p]
                if p in shadow and x.id in shadow[p]:
                    shadowed = True
            if shadowed:
                continue
            chain.reverse()
            # the last component may be a method of an object (np.random.RandomState(0).rand): resolve the longest
            # prefix that is reached through modules / classes / functions only - the lookup stops at the first call,
            # which the chain cannot contain (a Call node ends an Attribute chain), so the whole chain is a pure name
            dotted = ext[x.id] + "." + ".".join(chain)
            in_handler = any(isinstance(parents.get(q), ast.ExceptHandler) and parents[q].type is q for q in _up(node, parents))
            encl = [q.name for q in _up(node, parents) if isinstance(q, ast.FunctionDef)]
            where = "%s.%s" % (mname, ".".join(reversed(encl))) if encl else mname
            key = (where, dotted, in_handler)
            if key in seen:
                continue
            seen.add(key)
            ok, why = _resolve_external(dotted)
            if ok is None:
                continue
            n += 1
            root = dotted.split(".")[0]
            f = "mir_eval/%s.py:%d" % (mname, node.lineno)
            yield ob(rule, f, "%s:%s%s" % (where, dotted, "@except" if in_handler else ""), ok, ("%s resolves in the installed library" % dotted) if ok else ("%s - evaluating %s raises AttributeError%s" % (why, ast.unparse(node), ": the exception this handler was written for escapes as an unrelated AttributeError" if in_handler else "")), node=node)
    need(n >= 5, rule, "only %d external names found" % n)


def _up(node, parents):
    out = [node]
    while out[-1] in parents:
        out.append(parents[out[-1]])
    return out


# ------------------------------------------------------------------ NONETRUTH
def rule_nonetruth(ctx, rule, files):
    """A parameter that may be None *and* may be a number (or an array) is tested with `is None` / `is not None`, never by
    its truth value: `if t_min:` treats the legitimate value 0.0 like "not given" (and an array has no truth value at
    all), so the behaviour at the time origin differs from the behaviour an instant later."""
    n = 0
    for f in ctx.program.all_funcs(include_new=True):
        if files is not None and f.module.path.split("mir_eval/")[-1] not in files:
            continue
        cand = {}
        for p in list(f.params) + list(getattr(f, "kwonly", [])):
            doc = [x for x in f.docinfo.get("params", []) if x[0] == p]
            ty = (doc[0][1] if doc else "") or ""
            d = f.defaults.get(p)
            none_default = isinstance(d, ast.Constant) and d.value is None
            may_none = none_default or "None" in ty
            numeric = any(k in ty for k in ("float", "int", "number", "ndarray", "scalar")) or (isinstance(d, ast.Constant) and isinstance(d.value, (int, float)) and not isinstance(d.value, bool) and "None" in ty)
            if may_none and numeric:
                cand[p] = ty
        if not cand:
            continue
        rebound = {x.id for x in ast.walk(f.node) if isinstance(x, ast.Name) and isinstance(x.ctx, ast.Store)}
        bad = {}

        def truth(e):
            if isinstance(e, ast.BoolOp):
                for v in e.values:
                    truth(v)
            elif isinstance(e, ast.UnaryOp) and isinstance(e.op, ast.Not):
                truth(e.operand)
            elif isinstance(e, ast.Name) and e.id in cand and e.id not in rebound:
                bad.setdefault(e.id, e)

        for x in ast.walk(f.node):
            if isinstance(x, (ast.If, ast.IfExp, ast.While)):
                truth(x.test)
            elif isinstance(x, ast.Assert):
                truth(x.test)
            elif isinstance(x, ast.comprehension):
                for c in x.ifs:
                    truth(c)
            elif isinstance(x, ast.BoolOp):
                # `t_min or 0.0` as a value: the same confusion
                for v in x.values[:-1]:
                    truth(v)
        for p in sorted(cand):
            n += 1
            e = bad.get(p)
            yield ob(rule, f, "%s:%s" % (f.qual, p), e is None, ("optional parameter %s (%s) is tested with `is None` only" % (p, cand[p])) if e is None else ("optional parameter %s (%s) is tested by its truth value at line %d: the valid value 0 (or an array) is treated as \"not given\"" % (p, cand[p], e.lineno)), node=e)
    need(n >= 2, rule, "only %d optional numeric parameters found" % n)


# ------------------------------------------------------------------ FORMATSAFE
def rule_formatsafe(ctx, rule, files):
    """`<template>.format(...)` is applied to a template the *program* wrote (a literal, a module constant, a local that
    is only ever bound to one of those) - never to text that may already contain the user's input: a label, key or file
    line containing `{` or `}` then raises KeyError / IndexError / ValueError from str.format instead of the documented
    exception (and a message formatted twice has the same effect)."""
    n = 0
    for mname in sorted(ctx.program.modules):
        mod = ctx.program.modules[mname]
        if files is not None and mod.path.split("mir_eval/")[-1] not in files:
            continue
        parents = {}
        for node in ast.walk(mod.tree):
            for ch in ast.iter_child_nodes(node):
                parents[ch] = node

        def table_entry(v):
            """X[...] (any depth) of a module-level display that contains no interpolated text"""
            while isinstance(v, ast.Subscript):
                v = v.value
            if not isinstance(v, ast.Name):
                return False
            node = mod.const_nodes.get(v.id)
            if not isinstance(node, (ast.Dict, ast.Tuple, ast.List)):
                return False
            return not any(isinstance(x, (ast.JoinedStr, ast.BinOp)) and not (isinstance(x, ast.BinOp) and isinstance(x.op, ast.Add)) for x in ast.walk(node))

        def literal(e, fn, depth=0):
            if depth > 4:
                return False
            if isinstance(e, ast.Constant) and isinstance(e.value, str):
                return True
            if isinstance(e, ast.JoinedStr):
                return False  # an f-string has already interpolated something
            if isinstance(e, ast.BinOp) and isinstance(e.op, ast.Add):
                return literal(e.left, fn, depth + 1) and literal(e.right, fn, depth + 1)
            if isinstance(e, ast.Name):
                if fn is not None:
                    params = {a.arg for a in fn.args.args + fn.args.kwonlyargs}
                    if e.id in params:
                        return False
                    assigns = [x for x in ast.walk(fn) if isinstance(x, ast.Assign) and any(isinstance(t, ast.Name) and t.id == e.id for t in x.targets)]
                    unpacks = [x for x in ast.walk(fn) if isinstance(x, ast.Assign) and any(isinstance(t, (ast.Tuple, ast.List)) and any(isinstance(z, ast.Name) and z.id == e.id for z in t.elts) for t in x.targets)]
                    others = [x for x in ast.walk(fn) if isinstance(x, ast.Name) and x.id == e.id and isinstance(x.ctx, ast.Store)]
                    if assigns or unpacks:
                        # a local that is only ever bound to a literal, or to an entry of a module-level table of literals
                        return len(others) == len(assigns) + len(unpacks) and all(literal(a.value, fn, depth + 1) or table_entry(a.value) for a in assigns) and all(table_entry(a.value) for a in unpacks)
                    if others:
                        return False
                node = mod.const_nodes.get(e.id)
                return node is not None and literal(node, None, depth + 1)
            return False

        k = 0
        for node in ast.walk(mod.tree):
            if isinstance(node, ast.Call) and isinstance(node.func, ast.Attribute) and node.func.attr == "format":
                fn = None
                where = [mname]
                for q in _up(node, parents):
                    if isinstance(q, ast.FunctionDef):
                        if fn is None:
                            fn = q
                    if isinstance(q, (ast.FunctionDef, ast.ClassDef)):
                        where.insert(1, q.name)
                k += 1
                n += 1
                ok = literal(node.func.value, fn)
                yield ob(rule, "mir_eval/%s.py:%d" % (mname, node.lineno), "%s:format@%d" % (".".join(where), k), ok, "format template is a literal / module constant" if ok else "str.format is applied to %s, which is not a template written in the source: text containing { or } raises from str.format" % ast.unparse(node.func.value)[:60], node=node)
    need(n >= 1, rule, "no format call found")


def alpha(t):
    """Rename loop / comprehension / merge identifiers in order of first appearance: two evaluations of the same code
    (a helper evaluated in place twice) differ only in these identifiers."""
    import re as _re

    names = {}
    pat = _re.compile(r"^(L|C|T|U)\d+(_\d+)?(c|x)?$")

    def ren(v):
        if isinstance(v, str) and pat.match(v):
            base = _re.match(r"^((L|C|T|U)\d+(_\d+)?)", v).group(1)
            if base not in names:
                names[base] = "#%d" % (len(names) + 1)
            return names[base] + v[len(base):]
        return v

    memo = {}

    def rec(x):
        r = memo.get(x.id)
        if r is not None:
            return r
        args = []
        for a in x.a:
            if hasattr(a, "op"):
                args.append(rec(a))
            elif isinstance(a, tuple):
                args.append(tuple(rec(z) if hasattr(z, "op") else (tuple(rec(w) if hasattr(w, "op") else w for w in z) if isinstance(z, tuple) else ren(z)) for z in a))
            else:
                args.append(ren(a))
        r = tm.mk(x.op, *args)
        memo[x.id] = r
        return r

    return rec(t)


def shape_key(t, _memo=None):
    """A canonical text of a term with loop / comprehension identifiers forgotten and the operands of commutative
    operators ordered by their own text: equal for two evaluations of the same code (a helper evaluated in place twice)."""
    import re as _re

    memo = {} if _memo is None else _memo
    pat = _re.compile(r"^(L|C|T|U)\d+(_\d+)?(c|x)?$")

    def leaf(v):
        if isinstance(v, str) and pat.match(v):
            return "*"
        return repr(v)

    def rec(x):
        r = memo.get(x.id)
        if r is not None:
            return r
        parts = []
        for a in x.a:
            if hasattr(a, "op"):
                parts.append(rec(a))
            elif isinstance(a, tuple):
                parts.append("(" + ",".join(rec(z) if hasattr(z, "op") else ("(" + ",".join(rec(w) if hasattr(w, "op") else leaf(w) for w in z) + ")" if isinstance(z, tuple) else leaf(z)) for z in a) + ")")
            else:
                parts.append(leaf(a))
        if x.op == "bin" and x.a[0] in tm.COMMUTATIVE_BIN:
            parts = [parts[0]] + sorted(parts[1:])
        elif x.op == "cmp" and x.a[0] in ("==", "!=", "is", "isnot"):
            parts = [parts[0]] + sorted(parts[1:])
        elif x.op == "bool":
            parts = [parts[0]] + sorted(parts[1:])
        r = x.op + "[" + "|".join(parts) + "]"
        memo[x.id] = r
        return r

    return rec(t)


PARAM_UNUSED_REVIEWED = {("segment.rand_index", "beta"): "documented but unused in the published code (the Rand index has no F-measure); reviewed"}


def purity_rules(prop):
    """Every property quantifies over *all* calls of its entry points: hidden state (a module-level cache, a memoised
    template, a mutable default) or an in-place write to an argument, anywhere in what those entry points can reach,
    makes the result of one call depend on the calls before it.  The two purity rules of C15 are therefore part of every
    check, restricted to the call-graph closure of the public functions of the property's own files."""
    import json
    import os

    here = os.path.dirname(os.path.dirname(os.path.dirname(os.path.abspath(__file__))))
    files = None
    with open(os.path.join(here, "properties.jsonl")) as fh:
        for line in fh:
            d = json.loads(line)
            if d["id"] == prop:
                files = tuple(sorted(x.split("/")[-1] for x in d["anchors"]["files"]))
    if not files:
        return []
    def dtype_rule(ctx):
        # integer-valued input is valid input for every property: no real-valued result is stored into a buffer
        # that has an input's dtype, anywhere in what the property's entry points reach
        reach = reach_from(ctx, files)
        for o in rule_dtypeflow(prop + ".INTINPUT")(ctx):
            fq = o.construct.split(":")[0]
            if fq in reach:
                yield o

    def narrow_rule(ctx):
        # times, pitches and counts keep their precision: no narrow dtype (float32, int32, ...) is introduced anywhere in
        # what the property's entry points reach, beyond the reviewed sites (NARROW_REVIEWED, per function)
        reach = reach_from(ctx, files)
        mods = sorted({q.split(".")[0] for q in reach})
        k = 0
        for o in rule_narrowdtype(prop + ".NARROW", tuple(m + ".py" for m in mods), min_sites=0)(ctx):
            fq = o.construct.split(":")[0]
            if fq in reach:
                k += 1
                yield o
        if k == 0:
            yield ob(prop + ".NARROW", "mir_eval/%s" % files[0], "%s:narrow-dtypes" % prop, True, "no narrow dtype in the %d functions reachable from the property's entry points" % len(reach))

    def slack_rule(ctx):
        reach = reach_from(ctx, files)
        mods = sorted({q.split(".")[0] for q in reach})
        k = 0
        for o in rule_noslack(prop + ".NOSLACK", tuple(m + ".py" for m in mods))(ctx):
            fq = o.construct.split(":")[0]
            if fq in reach:
                k += 1
                yield o
        if k == 0:
            yield ob(prop + ".NOSLACK", "mir_eval/%s" % files[0], "%s:slack" % prop, True, "no tiny constant is mixed into a compared or dividing value in the %d functions reachable from the property's entry points" % len(reach))

    def clamp_rule(ctx):
        reach = reach_from(ctx, files)
        mods = sorted({q.split(".")[0] for q in reach})
        k = 0
        for o in rule_noclamp(prop + ".NOCLAMP", tuple(m + ".py" for m in mods))(ctx):
            fq = o.construct.split(":")[0]
            if fq in reach:
                k += 1
                yield o
        if k == 0:
            yield ob(prop + ".NOCLAMP", "mir_eval/%s" % files[0], "%s:clamps" % prop, True, "no clamp in the %d functions reachable from the property's entry points" % len(reach))

    def paramused_rule(ctx):
        # a documented parameter that is accepted but read nowhere is silently ignored (`beta` no longer forwarded to
        # util.f_measure, a `fill_value` not passed on): every parameter of every public function the property's
        # entry points reach occurs in some returned value, call argument, stored value or branch condition
        reach = reach_from(ctx, files)
        k = 0
        for q in sorted(reach):
            if not ctx.program.has_func(q):
                continue
            f = ctx.program.func(q)
            if not getattr(f, "public", True) or f.parent is not None or f.module.name in ("display", "sonify"):
                continue
            s_ = ctx.S.get(q)
            used = set()
            for r in s_.returns:
                used |= tm.params_of(r.term)
            for x in s_.sites:
                for v in x.d.values():
                    if hasattr(v, "op") and hasattr(v, "id"):
                        used |= tm.params_of(v)
                    elif isinstance(v, (tuple, list)):
                        for z in v:
                            if hasattr(z, "op") and hasattr(z, "id"):
                                used |= tm.params_of(z)
                            elif isinstance(z, tuple) and len(z) == 2 and hasattr(z[1], "op"):
                                used |= tm.params_of(z[1])
                for c in getattr(x, "pc", ()) or ():
                    if len(c) > 1 and hasattr(c[1], "op"):
                        used |= tm.params_of(c[1])
            # (read off the syntax tree as well: a summary can lose a use - a loop with break / else it abstracts -
            # and a parameter whose name is loaded anywhere in the body is not dead)
            loaded = {n_.id for n_ in ast.walk(f.node) if isinstance(n_, ast.Name) and isinstance(n_.ctx, ast.Load)}
            dead = [p_ for p_ in f.params if p_ not in used and p_ not in loaded and (q, p_) not in PARAM_UNUSED_REVIEWED]
            k += 1
            yield ob(prop + ".PARAMUSED", f, "%s:parameters" % q, not dead, "every parameter of %s is read" % q if not dead else "parameter(s) %s of %s are accepted but read nowhere: the documented argument has no effect" % (", ".join(dead), q))
        need(k >= 1, prop + ".PARAMUSED", "no public function in reach")

    extra = ([] if prop == "C16" else [(prop + ".NARROW", 0, narrow_rule)]) + [(prop + ".NOSLACK", 0, slack_rule), (prop + ".NOCLAMP", 0, clamp_rule), (prop + ".PARAMUSED", 0, paramused_rule)]
    return [
        (prop + ".NOSTATE", 5, shared_reach("c15", "rule_globalstate", prop + ".NOSTATE", files)),
        (prop + ".ARGSAFE", 5, shared_reach("c15", "rule_nomut", prop + ".ARGSAFE", files)),
        (prop + ".INTINPUT", 0, dtype_rule),
    ] + extra


BUNDLE_PARTS = ("rule_kwview", "rule_bundlekw", "rule_kwlive", "rule_keyparam", "rule_kwforward", "rule_filterimpl", "rule_decorated", "rule_roleargs", "rule_unpackorder", "rule_preproc", "rule_preproc_chord", "rule_paramlive", "rule_beattrim", "rule_argident")


def bundle_rules(prop):
    """A property is also stated for evaluate(): the routing rules of C03 (which callee sees which keyword, which
    argument is bound to which parameter, which returned component is stored under which key, which pre-processing feeds
    which metric) are re-issued for the functions of the property's own modules; the keyword filter itself
    (util.filter_kwargs and the decorator it looks through) belongs to every bundle."""
    import json
    import os

    here = os.path.dirname(os.path.dirname(os.path.dirname(os.path.abspath(__file__))))
    files = None
    with open(os.path.join(here, "properties.jsonl")) as fh:
        for line in fh:
            d = json.loads(line)
            if d["id"] == prop:
                files = tuple(sorted(x.split("/")[-1] for x in d["anchors"]["files"]))
    if not files:
        return []
    mods = {f[:-3] for f in files}

    def make(part):
        def rule(ctx):
            import importlib

            c03 = importlib.import_module("sa.rules.c03")
            try:
                got = list(getattr(c03, part)(ctx))
            except AnalysisError as e:
                # a routing rule that cannot read some *other* module's evaluate() says nothing about this property
                if part in ("rule_filterimpl", "rule_decorated") or any((m_ + ".") in (e.why or "") for m_ in mods):
                    raise
                return
            for o in got:
                m = o.construct.split(":")[0].split(".")[0]
                if m in mods or part in ("rule_filterimpl", "rule_decorated"):
                    o.rule = prop + ".BUNDLE"
                    yield o

        rule.__doc__ = "shared with C03.%s (routing rules), restricted to %s" % (part, ", ".join(files))
        return rule

    # one entry per routing rule: a rule that cannot read one construct does not silence the others
    return [(prop + ".BUNDLE", 0, make(part)) for part in BUNDLE_PARTS]


# ------------------------------------------------------------------ HELPERDEFAULTS
# defaults of shared helpers that callers rely on *by omission* (reviewed; the value is part of the published behaviour:
# a docstring edited together with the signature does not make a new default right)
HELPER_DEFAULTS = [
    ("util.index_labels", "case_sensitive", False, "labels are compared case-insensitively by every labelling metric"),
    ("util.intervals_to_boundaries", "q", 5, "boundaries are rounded to 5 decimals before duplicates are removed"),
    ("tempo.validate_tempi", "reference", True, "the tempo loader validates its pair as a reference (at least one positive tempo)"),
    ("melody.to_cent_voicing", "base_frequency", 10.0, "cents are measured from 10 Hz, below every admissible pitch, so 0 cents can only mean unvoiced"),
    ("melody.hz2cents", "base_frequency", 10.0, "as above"),
    ("util.intervals_to_samples", "sample_size", 0.1, "labelling metrics sample at 0.1 s unless told otherwise"),
]


def rule_helperdefaults(rule):
    def run(ctx):
        for q, p, want, why in HELPER_DEFAULTS:
            f = ctx.program.func(q, rule)
            need(p in f.all_params, rule, "%s has no parameter %s" % (q, p))
            okd, dv = f.default_value(p)
            good = okd and dv == want and type(dv) is type(want)
            yield ob(rule, f, "%s:%s" % (q, p), good, ("%s defaults to %r (%s)" % (p, want, why)) if good else "%s defaults to %s, not %r: %s" % (p, repr(dv) if okd else "no literal", want, why))

    return run


# ------------------------------------------------------------------ NARROWDTYPE
NARROW = {"int8", "int16", "int32", "uint8", "uint16", "uint32", "float16", "float32", "half", "single", "short", "intc", "byte"}
# reviewed per function: the same narrow type anywhere else is a new site
NARROW_REVIEWED = {
    ("hierarchy", "_lca", "uint8"): "level indices of a hierarchy (documented small)",
    ("hierarchy", "_meet", "uint8"): "level indices of a hierarchy (documented small)",
    ("segment", "_adjusted_mutual_info_score", "int32"): "marginals of the contingency table in the expected-MI sum (sklearn's own code): used as summation limits and gammaln arguments, never multiplied together",
    ("util", "intervals_to_samples", "float32"): "sample index grid of intervals_to_samples (as published)",
}


def rule_narrowdtype(rule, files, min_sites=1):
    def run(ctx):
        n = 0
        for mname in sorted(ctx.program.modules):
            mod = ctx.program.modules[mname]
            if mod.path.split("mir_eval/")[-1] not in files:
                continue
            owner = {}
            per_fn = {}
            for fn in ast.walk(mod.tree):
                if isinstance(fn, ast.FunctionDef):
                    for x in ast.walk(fn):
                        owner[x] = fn.name  # the innermost function wins: ast.walk visits outer definitions first
            for node in ast.walk(mod.tree):
                names = []
                if isinstance(node, ast.keyword) and node.arg == "dtype":
                    names.append(node.value)
                elif isinstance(node, ast.Call) and isinstance(node.func, ast.Attribute) and node.func.attr == "astype" and node.args:
                    names.append(node.args[0])
                elif isinstance(node, ast.Call) and isinstance(node.func, ast.Attribute) and node.func.attr in NARROW and isinstance(node.func.value, ast.Name) and node.func.value.id in ("np", "numpy"):
                    names.append(node.func)  # np.int32(x)
                for v in names:
                    txt = ast.unparse(v).strip("\"'").split(".")[-1]
                    if txt in NARROW:
                        n += 1
                        fname = owner.get(node, "<module>")
                        per_fn[(fname, txt)] = per_fn.get((fname, txt), 0) + 1
                        ok = (mname, fname, txt) in NARROW_REVIEWED
                        why_ok = NARROW_REVIEWED.get((mname, fname, txt))
                        if not ok and fname.startswith("_"):
                            # a private helper that only the reviewed function calls: the reviewed code, moved
                            callers = {owner.get(c) for c in ast.walk(mod.tree) if isinstance(c, ast.Call) and isinstance(c.func, ast.Name) and c.func.id == fname}
                            if callers and all((mname, c, txt) in NARROW_REVIEWED for c in callers):
                                ok = True
                                why_ok = NARROW_REVIEWED[(mname, sorted(callers)[0], txt)] + " (in a helper only that function calls)"
                        yield ob(rule, "mir_eval/%s.py:%d" % (mname, getattr(v, "lineno", 1)), "%s.%s:dtype=%s@%d" % (mname, fname, txt, per_fn[(fname, txt)]), ok, ("reviewed narrow type: %s" % why_ok) if ok else "an array is given the narrow type %s in %s: counts beyond its range wrap around, times and frequencies lose the digits a tolerance test depends on" % (txt, fname))
        need(n >= min_sites, rule, "no narrow dtype site found (the reviewed ones vanished)")

    return run


# ------------------------------------------------------------------ NOSLACK
SLACK_REVIEWED = {
    ("segment", "_normalized_mutual_info_score", "max"): "NMI divides by max(sqrt(H_ref * H_est), 1e-10): sklearn's published guard for two single-cluster labellings (MI is 0 there)",
}


def _small_constant(e):
    """the value of a numeric literal / `10.0 ** -k` / `np.finfo(..).eps` style expression that is a tiny positive
    number (0 < |c| < 1e-3), else None"""
    if isinstance(e, ast.UnaryOp) and isinstance(e.op, (ast.USub, ast.UAdd)):
        return _small_constant(e.operand)
    if isinstance(e, ast.Constant) and isinstance(e.value, float) and 0 < abs(e.value) < 1e-3:
        return e.value
    if isinstance(e, ast.BinOp) and isinstance(e.op, ast.Pow) and isinstance(e.left, ast.Constant) and e.left.value in (10, 10.0, 2, 2.0):
        r = e.right
        if isinstance(r, ast.UnaryOp) and isinstance(r.op, ast.USub):
            return 1e-9  # 10.0 ** -N: a negative power of the base
    if isinstance(e, ast.Attribute) and e.attr in ("eps", "tiny", "epsilon", "resolution"):
        return 1e-16
    return None


def rule_noslack(rule, files, min_sites=0):
    """Tolerances, thresholds and denominators are used as given: no tiny constant is added to (or subtracted from) a
    value that is then compared or divided by (`tol + 1e-9`, `y + eps`), and no `max(y, eps)` stands in for the
    documented special case of a zero denominator - slack of that kind accepts what the documented comparison rejects
    and replaces a documented 0 / NaN by a huge finite number."""

    def run(ctx):
        n = 0
        for mname in sorted(ctx.program.modules):
            mod = ctx.program.modules[mname]
            if mod.path.split("mir_eval/")[-1] not in files:
                continue
            owner = {}
            for fn in ast.walk(mod.tree):
                if isinstance(fn, ast.FunctionDef):
                    for x in ast.walk(fn):
                        owner[x] = fn.name
            per_fn = {}
            for node in ast.walk(mod.tree):
                kind = None
                if isinstance(node, ast.BinOp) and isinstance(node.op, (ast.Add, ast.Sub)):
                    cs = [_small_constant(z) for z in (node.left, node.right)]
                    if sum(c is not None for c in cs) == 1:
                        kind = "add"
                elif isinstance(node, ast.Call) and ast.unparse(node.func) in ("max", "np.maximum", "min", "np.minimum", "np.clip") and any(_small_constant(a) is not None for a in node.args):
                    kind = "max"
                if kind is None or node not in owner:
                    continue
                fname = owner[node]
                n += 1
                per_fn[(fname, kind)] = per_fn.get((fname, kind), 0) + 1
                rev = SLACK_REVIEWED.get((mname, fname, kind))
                yield ob(rule, "mir_eval/%s.py:%d" % (mname, node.lineno), "%s.%s:slack-%s@%d" % (mname, fname, kind, per_fn[(fname, kind)]), rev is not None, ("reviewed: %s" % rev) if rev else "`%s` in %s: a tiny constant is mixed into a value that is compared or divided by - inputs exactly at a documented bound change sides, a documented zero-denominator case yields a huge number instead" % (ast.unparse(node)[:80], fname), node=node)
        need(n >= min_sites, rule, "no slack site found (the reviewed one vanished)")

    return run


# ------------------------------------------------------------------ NOCLAMP
CLAMP_REVIEWED = {
    ("alignment", "percentage_correct_segments"): "overlap length max(end - start, 0): disjoint segments contribute 0 (published)",
    ("hierarchy", "_gauc"): "window start max(0, query - window): the window is cut at the first frame",
    ("segment", "_adjusted_mutual_info_score"): "lower summation limit max(start, 1) of the expected-MI sum (sklearn)",
    ("segment", "_normalized_mutual_info_score"): "NMI denominator guard (sklearn)",
    ("transcription_velocity", "match_notes"): "velocity range max(1, max - min): constant velocities are not divided by 0",
    ("sonify", "time_frequency"): "synthesis: negative magnitudes and a negative first sample index are cut at 0 (two sites)",
    ("sonify", "pitch_contour"): "synthesis: negative (unvoiced) frequencies are silenced",
}
CLAMP_COUNTS = {("sonify", "time_frequency"): 2}
# the functions whose values have a documented range or meaning that a clamp would falsify; a clamp elsewhere (index
# arithmetic, a count that cannot be negative anyway) is ordinary code and is not judged
CLAMP_WATCH = {
    ("transcription", "average_overlap_ratio"), ("chord", "encode"), ("chord", "encode_many"), ("chord", "weighted_accuracy"),
    ("chord", "scale_degree_to_semitone"), ("chord", "scale_degree_to_bitmap"), ("chord", "pitch_class_to_semitone"),
    ("hierarchy", "tmeasure"), ("hierarchy", "lmeasure"), ("multipitch", "resample_multipitch"), ("multipitch", "compute_num_freqs"),
    ("util", "intervals_to_samples"), ("util", "interpolate_intervals"), ("util", "adjust_intervals"), ("util", "adjust_events"),
    ("segment", "detection"), ("segment", "deviation"), ("separation", "bss_eval_sources_framewise"), ("separation", "bss_eval_images_framewise"),
    ("melody", "raw_pitch_accuracy"), ("melody", "raw_chroma_accuracy"), ("melody", "overall_accuracy"), ("melody", "freq_to_voicing"),
    ("melody", "resample_melody_series"), ("tempo", "detection"), ("io", "load_tempo"), ("beat", "cemgil"), ("beat", "information_gain"),
    ("onset", "f_measure"), ("key", "weighted_score"), ("alignment", "percentage_correct"), ("alignment", "karaoke_perceptual_metric"),
} | set(CLAMP_REVIEWED)


def rule_noclamp(rule, files, min_sites=0):
    """Scores, times and window sizes are used as computed in the functions whose values have a documented range or
    meaning (CLAMP_WATCH): no new `np.clip(..)` / `max(x, <number>)` / `np.minimum(x, <number>)` forces a value into a
    range there.  The clamps of the published code are reviewed per function; a new one turns a documented out-of-range
    value (a negative overlap ratio, a time outside the
    annotation, a one-frame window, a flattened unison) into a different, valid-looking one."""

    def run(ctx):
        n = 0
        for mname in sorted(ctx.program.modules):
            mod = ctx.program.modules[mname]
            if mod.path.split("mir_eval/")[-1] not in files:
                continue
            owner = {}
            for fn in ast.walk(mod.tree):
                if isinstance(fn, ast.FunctionDef):
                    for x in ast.walk(fn):
                        owner[x] = fn.name
            per_fn = {}
            for node in ast.walk(mod.tree):
                if not isinstance(node, ast.Call) or node not in owner:
                    continue
                fnm = ast.unparse(node.func)
                numeric = lambda a: (isinstance(a, ast.Constant) and isinstance(a.value, (int, float)) and not isinstance(a.value, bool)) or (isinstance(a, ast.UnaryOp) and isinstance(a.operand, ast.Constant) and isinstance(a.operand.value, (int, float)))
                is_clamp = fnm in ("np.clip", "numpy.clip") or (fnm.endswith(".clip") and len(node.args) + len(node.keywords) >= 2) or (fnm in ("max", "min", "np.maximum", "np.minimum", "np.fmax", "np.fmin") and len(node.args) == 2 and any(numeric(a) for a in node.args))
                if not is_clamp:
                    continue
                fname = owner[node]
                if (mname, fname) not in CLAMP_WATCH:
                    continue
                n += 1
                per_fn[fname] = per_fn.get(fname, 0) + 1
                rev = CLAMP_REVIEWED.get((mname, fname))
                ok = rev is not None and per_fn[fname] <= CLAMP_COUNTS.get((mname, fname), 1)
                if not ok and fname.startswith("_"):
                    callers = {owner.get(c) for c in ast.walk(mod.tree) if isinstance(c, ast.Call) and isinstance(c.func, ast.Name) and c.func.id == fname}
                    if callers and all((mname, c) in CLAMP_REVIEWED for c in callers) and per_fn[fname] == 1:
                        ok, rev = True, CLAMP_REVIEWED[(mname, sorted(callers)[0])] + " (in a helper only that function calls)"
                yield ob(rule, "mir_eval/%s.py:%d" % (mname, node.lineno), "%s.%s:clamp@%d" % (mname, fname, per_fn[fname]), ok, ("reviewed clamp: %s" % rev) if ok else "`%s` in %s forces a value into a range the published computation does not: what lay outside is no longer reported (or rejected) as such" % (ast.unparse(node)[:80], fname), node=node)
        need(n >= min_sites, rule, "no clamp site found (the reviewed ones vanished)")

    return run


# ------------------------------------------------------------------ FLOORDIV
def rule_floordiv(rule, files):
    """`a // b` is used on integers only: for floats, floor division is computed on the exact quotient of the two
    binary fractions (1.0 // 0.1 == 9.0 although floor(1.0 / 0.1) == 10), so a frame count written `end // hop` loses
    its last frame exactly when the duration is a round multiple of a non-dyadic hop."""

    def floating(t, f, depth=0):
        """is the value certainly a float that need not be whole: a parameter documented as float / number (times, hops,
        frame sizes, tolerances), a non-integral literal, a true division - looked for through arithmetic, rounding
        to decimals and array reductions, not through int() / len() / floor()"""
        if depth > 10:
            return False
        if t.op == "const":
            return isinstance(t.a[0], float) and not float(t.a[0]).is_integer()
        if t.op == "param":
            doc = [x for x in f.docinfo.get("params", []) if x[0] == t.a[0]]
            ty = (doc[0][1] if doc else "") or ""
            return ("float" in ty or "number" in ty) and "int" not in ty.replace("interval", "")
        if t.op == "bin":
            if t.a[0] == "/":
                return True
            return floating(t.a[1], f, depth + 1) or floating(t.a[2], f, depth + 1)
        if t.op == "un":
            return floating(t.a[1], f, depth + 1)
        if t.op == "call":
            n = call_name(t)
            if n in ("builtins.int", "builtins.len", "np.floor", "np.ceil", "np.rint", "np.trunc", "builtins.round", "np.argmax", "np.argmin", "np.searchsorted", "np.count_nonzero", "np.sum"):
                return n == "np.sum" and False
            if n in ("np.round", "np.max", "np.min", "np.abs", "np.mean", "np.median", "builtins.float", "builtins.max", "builtins.min", "np.asarray", "np.array", "np.diff", "np.maximum", "np.minimum"):
                return any(floating(z, f, depth + 1) for z in t.a[1])
            return False
        if t.op == "sub":
            return floating(t.a[0], f, depth + 1)
        if t.op == "ite":
            return floating(t.a[1], f, depth + 1) or floating(t.a[2], f, depth + 1)
        return False

    def integral(t, f, depth=0):
        return not floating(t, f, depth)

    def run(ctx):
        n = 0
        for f in ctx.program.all_funcs(include_new=True):
            if f.module.path.split("mir_eval/")[-1] not in files:
                continue
            s = ctx.S.get(f.qual)
            for d in s.by_kind("div"):
                if d.d.get("op") != "//":
                    continue
                n += 1
                ok = integral(d.num, f) and integral(d.den, f)
                yield ob(rule, f, "%s:floordiv@%d" % (f.qual, n), ok, "integer floor division" if ok else "%s // %s on values that are not integers by construction: floor division of floats differs from floor(a / b) when the quotient is a whole number that the binary fractions miss" % (tm.show(d.num, 2), tm.show(d.den, 2)), node=d.node)
        yield ob(rule, "mir_eval/", "floordiv:census", True, "%d floor divisions examined" % n)

    return run


def dim_of(t):
    """(array term, k) for `x.shape[k]` and (x, 0) for `len(x)` (the canonical spelling of x.shape[0]), else None"""
    if t.op == "sub" and t.a[0].op == "attr" and t.a[0].a[1] == "shape" and t.a[1].op == "const" and isinstance(t.a[1].a[0], float):
        return t.a[0].a[0], int(t.a[1].a[0])
    if t.op == "call" and call_name(t) == "builtins.len" and len(t.a[1]) == 1:
        return t.a[1][0], 0
    return None
