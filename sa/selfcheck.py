"""setup_cmd self-check: the engine parses the repository and its own unit facts hold.
Exit 0 on success; prints what was analysed.  Never imports mir_eval."""

import sys

from . import report, terms as tm
from .regexfa import selfcheck as regex_selfcheck


def main():
    ctx = report.Ctx()
    funcs = ctx.program.all_funcs()
    sums = ctx.S.all()
    nsites = sum(len(s.sites) for s in sums)
    assert len(funcs) >= 150, "function table too small: %d" % len(funcs)
    # term normal-form unit facts
    a, b = tm.param("a"), tm.param("b")
    assert tm.binop("+", a, b) is tm.binop("+", b, a)
    assert tm.cmp(">", a, b) is tm.cmp("<", b, a)
    assert tm.call(tm.ext("np.less_equal"), (a, b)) is tm.cmp("<=", a, b)
    assert tm.method_call(a, "sum") is tm.call(tm.ext("np.sum"), (a,))
    assert tm.call(tm.mk("builtin", "float"), (a,)) is a
    regex_selfcheck()
    print("selfcheck ok: %d modules, %d functions, %d sites, %d interned terms" % (len(ctx.program.modules), len(funcs), nsites, tm._COUNTER[0]))
    return 0


if __name__ == "__main__":
    sys.exit(main())
