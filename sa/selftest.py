"""Two-way self-test of the checker (DESIGN section 6), done in memory.

must-fire: single edits of the *current* source that still compile and break a property;
must-stay-silent: behaviour-preserving edits.  A mutant whose anchor text no longer occurs in
the tree is skipped and counted.  Results are evidence only: they never decide the exit status
of a check."""

from __future__ import annotations

import importlib
import sys
import time

from . import report
from .model import Program


def apply_edit(src, old, new, occ=None):
    n = src.count(old)
    if n == 0:
        return None
    if occ is None:
        if n != 1:
            return None
        return src.replace(old, new)
    if occ >= n:
        return None
    parts = src.split(old)
    return old.join(parts[: occ + 1]) + new + old.join(parts[occ + 1 :])


def run_mutant(prop, mod, m, base_sources, base_viol=frozenset()):
    """Returns (status, detail): status in fired / silent / skipped / error.  Violations that the
    unmodified tree already has (the listed known findings) do not count as firing."""
    overrides = {}
    for (modname, old, new, *rest) in m["edits"]:
        occ = rest[0] if rest else None
        src = overrides.get(modname, base_sources[modname])
        out = apply_edit(src, old, new, occ)
        if out is None:
            return "skipped", "anchor text not found in %s" % modname
        try:
            compile(out, modname, "exec")
        except SyntaxError as e:
            return "skipped", "edit does not compile: %s" % e
        overrides[modname] = out
    ctx = report.Ctx(overrides=overrides)
    obs, errors = report.run_rules(prop, mod.RULES, ctx)
    viol = sorted({(o.rule, o.construct) for o in obs if not o.ok} - set(base_viol))
    if errors and not viol:
        return "error", "; ".join("%s: %s" % e for e in errors)[:300]
    if viol:
        return "fired", viol
    return "silent", None


def corpus_for(prop):
    from . import selftest_corpus as C

    return [m for m in C.MUTANTS if prop in m["props"]]


def run_for_property(prop, mod, ctx, verbose=False):
    t0 = time.time()
    base = {n: m.source for n, m in ctx.program.modules.items()}
    res = {"mutants_total": 0, "must_fire": 0, "fired": 0, "must_silent": 0, "silent": 0, "skipped": 0, "unexpected": []}
    bobs, _berr = report.run_rules(prop, mod.RULES, ctx)
    base_viol = frozenset((o.rule, o.construct) for o in bobs if not o.ok)
    res["baseline_violations_ignored"] = len(base_viol)
    for m in corpus_for(prop):
        res["mutants_total"] += 1
        status, detail = run_mutant(prop, mod, m, base, base_viol)
        want = m.get("expect", "fire")
        if status == "skipped":
            res["skipped"] += 1
            if verbose:
                print("SKIP ", m["id"], detail)
            continue
        if want == "fire":
            res["must_fire"] += 1
            okk = status == "fired" and (m.get("rule") is None or any(r == m["rule"] for r, _ in detail))
            if okk:
                res["fired"] += 1
            else:
                res["unexpected"].append({"id": m["id"], "want": "fire" + (":" + m["rule"] if m.get("rule") else ""), "got": status, "detail": str(detail)[:300]})
        else:
            res["must_silent"] += 1
            if status == "silent":
                res["silent"] += 1
            else:
                res["unexpected"].append({"id": m["id"], "want": "silent", "got": status, "detail": str(detail)[:300]})
        if verbose:
            print("%-6s %-40s want=%s %s" % (status.upper(), m["id"], want, detail if status != "silent" else ""))
    res["wall_s"] = round(time.time() - t0, 2)
    return res


if __name__ == "__main__":
    props = sys.argv[1:] or ["C%02d" % i for i in range(1, 21)]
    bad = 0
    for prop in props:
        try:
            mod = importlib.import_module("sa.rules.%s" % prop.lower())
        except ImportError:
            continue
        ctx = report.Ctx()
        r = run_for_property(prop, mod, ctx, verbose="-v" in sys.argv)
        print(prop, {k: v for k, v in r.items() if k != "unexpected"})
        for u in r["unexpected"]:
            bad += 1
            print("   UNEXPECTED", u)
    sys.exit(1 if bad else 0)
