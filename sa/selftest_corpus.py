"""Mutant corpus for the checker's self-test.  Each entry edits the current source text of one
or more modules (old -> new, optional occurrence index) and states whether the property's
rules must fire or must stay silent."""

MUTANTS = []


def M(id, props, edits, expect="fire", rule=None):
    MUTANTS.append({"id": id, "props": props if isinstance(props, list) else [props], "edits": edits, "expect": expect, "rule": rule})


# ------------------------------------------------------------------ C03
M("c03-unpack-swap", "C03", [("beat", 'scores["Cemgil"], scores["Cemgil Best Metric Level"]', 'scores["Cemgil Best Metric Level"], scores["Cemgil"]')], rule="C03.UNPACKORDER")
M("c03-filter-argcount", "C03", [("util", "func_code.co_varnames[: func_code.co_argcount]", "func_code.co_varnames[: func_code.co_argcount - 1]")], rule="C03.FILTERIMPL")
M("c03-velocity-positional-swap", "C03", [("transcription_velocity", "        onset_tolerance,\n        pitch_tolerance,\n        offset_ratio,\n        offset_min_tolerance,\n        strict,\n    )", "        pitch_tolerance,\n        onset_tolerance,\n        offset_ratio,\n        offset_min_tolerance,\n        strict,\n    )")], rule="C03.ROLEARGS")
M("c03-window-value", "C03", [("segment", 'kwargs["window"] = 3.0', 'kwargs["window"] = 0.3')], rule="C03.KEYPARAM")
M("c03-thres-misspelt", "C03", [("pattern", 'kwargs["thres"] = 0.5', 'kwargs["thresh"] = 0.5')], rule="C03.KWLIVE")
M("c03-rand-arity", "C03", [("segment", "        return 0.0\n\n    # Generate the cluster labels\n    y_ref = util.intervals_to_samples(\n        reference_intervals, reference_labels, sample_size=frame_size\n    )[-1]\n\n    y_ref = util.index_labels(y_ref)[0]\n\n    # Map to index space\n    y_est = util.intervals_to_samples(\n        estimated_intervals, estimated_labels, sample_size=frame_size\n    )[-1]\n\n    y_est = util.index_labels(y_est)[0]\n\n    # Build the reference label agreement matrix\n    agree_ref = np.equal.outer(y_ref, y_ref)\n\n    # Repeat for estimate\n    agree_est = np.equal.outer(y_est, y_est)\n\n    # Find where they agree\n    matches_pos", "        return 0.0, 0.0\n\n    # Generate the cluster labels\n    y_ref = util.intervals_to_samples(\n        reference_intervals, reference_labels, sample_size=frame_size\n    )[-1]\n\n    y_ref = util.index_labels(y_ref)[0]\n\n    # Map to index space\n    y_est = util.intervals_to_samples(\n        estimated_intervals, estimated_labels, sample_size=frame_size\n    )[-1]\n\n    y_est = util.index_labels(y_est)[0]\n\n    # Build the reference label agreement matrix\n    agree_ref = np.equal.outer(y_ref, y_ref)\n\n    # Repeat for estimate\n    agree_est = np.equal.outer(y_est, y_est)\n\n    # Find where they agree\n    matches_pos")], rule="C03.ARITY")
M("c03-onset-empty-arity", "C03", [("onset", "        return 0.0, 0.0, 0.0", "        return 0.0, 0.0")], rule="C03.ARITY")
M("c03-key-dropped", "C03", [("tempo", '        scores["Both-correct"],\n', '        scores["Both correct"],\n')], rule="C03.KEYSET")
M("c03-default-drift", "C03", [("transcription", 'kwargs.setdefault("offset_ratio", 0.2)', 'kwargs.setdefault("offset_ratio", 0.25)')], rule="C03.DEFAULTSYNC")
M("c03-direct-call", "C03", [("onset", "util.filter_kwargs(\n        f_measure, reference_onsets, estimated_onsets, **kwargs\n    )", "f_measure(reference_onsets, estimated_onsets)")], rule="C03.KWFORWARD")
M("c03-no-offset-lost", "C03", [("transcription_velocity", '    kwargs["offset_ratio"] = None\n', "")], rule="C03.KEYPARAM")
M("c03-beat-untrimmed", "C03", [("beat", "    estimated_beats = util.filter_kwargs(trim_beats, estimated_beats, **kwargs)\n", "")], rule="C03.PREPROC")
M("c03-roles-swapped-call", "C03", [("segment", "deviation, ref_intervals, est_intervals, **kwargs", "deviation, est_intervals, ref_intervals, **kwargs")], rule="C03.ROLEARGS")
M("c03-silent-rename-local", "C03", [("onset", "matching = util.match_events(reference_onsets, estimated_onsets, window)", "pairs = util.match_events(reference_onsets, estimated_onsets, window)"), ("onset", "float(len(matching)) / len(estimated_onsets)", "float(len(pairs)) / len(estimated_onsets)"), ("onset", "float(len(matching)) / len(reference_onsets)", "float(len(pairs)) / len(reference_onsets)")], expect="silent")
M("c03-silent-kw-explicit", "C03", [("segment", "        frame_size=frame_size,\n        beta=beta,\n        marginal=True,", "        beta=beta,\n        frame_size=frame_size,\n        marginal=True,")], expect="silent")

# ------------------------------------------------------------------ C15
M("c15-asarray-not-copy", "C15", [("melody", "voicing = np.array(voicing)", "voicing = np.asarray(voicing)")], rule="C15.NOMUT")
M("c15-table-escape", "C15", [("chord", "return np.array(QUALITIES[quality])", "return QUALITIES[quality]")], rule="C15.GLOBALSTATE")
M("c15-inplace-sub", "C15", [("multipitch", "    e_miss_numerator = n_ref - n_est\n", "    e_miss_numerator = n_ref\n    e_miss_numerator -= n_est\n")], rule="C15.NOMUT")
M("c15-resample-write", "C15", [("melody", "        times = np.append(times, times_new.max())\n", "        times = np.append(times, times_new.max())\n        voicing[-1] = 0\n")], rule="C15.NOMUT")
M("c15-labels-nocopy", "C15", [("util", "    # Never modify the caller's label list\n    if labels is not None:\n        labels = list(labels)\n\n    if t_min is not None:\n        # Find the intervals", "    if t_min is not None:\n        # Find the intervals")], rule="C15.NOMUT")
M("c15-isr-unfilled", "C15", [("separation", "sdr[:, k] = isr[:, k] = sir[:, k] = sar[:, k] = perm[:, k] = np.nan", "sdr[:, k] = sir[:, k] = sar[:, k] = perm[:, k] = np.nan")], rule="C15.EMPTYFILL")
M("c15-module-cache", "C15", [("chord", "def encode_many(chord_labels, reduce_extended_chords=False):", "_ENCODE_CACHE = {}\n\n\ndef encode_many(chord_labels, reduce_extended_chords=False):"), ("chord", "    local_cache = dict()", "    local_cache = _ENCODE_CACHE")], rule="C15.GLOBALSTATE")
M("c15-sort-inplace", "C15", [("util", "    idx = np.argsort(intervals[:, 0])\n", "    intervals.sort(axis=0)\n    idx = np.argsort(intervals[:, 0])\n")], rule="C15.NOMUT")
M("c15-kwargs-leak-default", "C15", [("transcription", "def average_overlap_ratio(ref_intervals, est_intervals, matching):", "def average_overlap_ratio(ref_intervals, est_intervals, matching, _memo={}):")], rule="C15.GLOBALSTATE")
M("c15-random-tiebreak", "C15", [("separation", "        popt = perms[np.argmax(mean_sir)]\n        idx = (popt, dum)\n        return (sdr[idx], sir[idx], sar[idx], np.asarray(popt))", "        popt = perms[np.argmax(mean_sir + 1e-12 * np.random.rand(len(perms)))]\n        idx = (popt, dum)\n        return (sdr[idx], sir[idx], sar[idx], np.asarray(popt))")], rule="C15.NONDET")
M("c15-silent-copy-style", "C15", [("melody", "voicing = np.array(voicing)", "voicing = voicing.copy()")], expect="silent")
M("c15-silent-newbuffer", "C15", [("multipitch", "    e_miss_numerator[e_miss_numerator < 0] = 0\n", "    e_miss_numerator = np.maximum(e_miss_numerator, 0)\n")], expect="silent")

# ------------------------------------------------------------------ C01
M("c01-fmeasure-noguard", "C01", [("util", "    if precision == 0 and recall == 0:\n        return 0.0\n\n", "")], rule="C01.GUARDTABLE")
M("c01-empty-guard-half", "C01", [("beat", "    if estimated_beats.size == 0 or reference_beats.size == 0:\n        return 0.0\n    # Compute the best-case", "    if estimated_beats.size == 0:\n        return 0.0\n    # Compute the best-case")], rule="C01.COUNTGUARD")
M("c01-nce-guard-weaker", "C01", [("segment", "    if z_ref > 0:", "    if z_ref >= 0:")], rule="C01.GUARDTABLE")
M("c01-deviation-negative-const", "C01", [("segment", "        return np.nan, np.nan", "        return -1.0, np.nan")], rule="C01.CONSTRET")
M("c01-gauc-noguard", "C01", [("hierarchy", "        if normalizer:\n            score", "        if True:\n            score")], rule="C01.GUARDTABLE")
M("c01-goto-nonbinary", "C01", [("beat", "return 1.0 * (goto_criteria == 3)", "return 1.0 * goto_criteria / 3")], rule="C01.CONSTRET")
M("c01-precision-over-intervals", "C01", [("segment", "precision = float(len(matching)) / len(estimated_boundaries)", "precision = float(len(matching)) / len(estimated_intervals)")], rule="C01.HITRATIO")
M("c01-melody-noguard", "C01", [("melody", "        ref_voicing.size == 0\n        or ref_voicing.sum() == 0\n        or ref_cent.size == 0\n        or est_cent.size == 0\n    ):\n        return 0.0\n\n    # Raw pitch", "        ref_voicing.size == 0\n        or ref_cent.size == 0\n        or est_cent.size == 0\n    ):\n        return 0.0\n\n    # Raw pitch")], rule="C01.GUARDTABLE")
M("c01-tempo-noguard", "C01", [("tempo", "        if ref_t > 0:", "        if ref_t >= 0:")], rule="C01.GUARDTABLE")
M("c01-multipitch-acc-noguard", "C01", [("multipitch", "    if acc_denom > 0:", "    if acc_denom >= 0:")], rule="C01.GUARDTABLE")
M("c01-wa-noguard", "C01", [("chord", "    if valid_idx.sum() == 0:", "    if valid_idx.sum() < 0:")], rule="C01.GUARDTABLE")
M("c01-early-return-2", "C01", [("transcription", "    if len(ref_pitches) == 0 or len(est_pitches) == 0:\n        return 0.0, 0.0, 0.0, 0.0\n", "    if len(ref_pitches) == 0 and len(est_pitches) == 0:\n        return 0.0, 0.0, 0.0, 0.0\n")], rule="C01.COUNTGUARD")
M("c01-vel-range-floor", "C01", [("transcription_velocity", "velocity_range = max(1, max_velocity - min_velocity)", "velocity_range = max_velocity - min_velocity")], rule="C01.GUARDTABLE")
M("c01-const-2", "C01", [("melody", "    if np.sum(ref_indicator) == 0:\n        return 1\n", "    if np.sum(ref_indicator) == 0:\n        return 100\n")], rule="C01.CONSTRET")
M("c01-silent-fmeasure-or", "C01", [("util", "    if precision == 0 and recall == 0:", "    if precision == 0 or recall == 0:")], expect="silent")
M("c01-silent-guard-len", "C01", [("beat", "    if estimated_beats.size == 0 or reference_beats.size == 0:\n        return 0.0\n    # Compute the best-case", "    if len(estimated_beats) == 0 or len(reference_beats) == 0:\n        return 0.0\n    # Compute the best-case")], expect="silent")
M("c01-silent-np-sum", "C01", [("melody", "np.sum(est_voicing * ref_indicator) / np.sum(ref_indicator)", "(est_voicing * ref_indicator).sum() / ref_indicator.sum()", 0)], expect="silent")

# ------------------------------------------------------------------ C10
M("c10-re-dollar", "C10", [("chord", '([1-9]|1[0-3]?)))?)?))\\Z"""', '([1-9]|1[0-3]?)))?)?))$"""')], rule="C10.GRAMMAR")
M("c10-re-extra-shorthand", "C10", [("chord", "|maj13|min13)", "|maj13|min13|sus)")], rule="C10.GRAMMAR")
M("c10-re-degree-14", "C10", [("chord", "(/((b*|#*)([1-9]|1[0-3]?)))?", "(/((b*|#*)([1-9]|1[0-4]?)))?")], rule="C10.GRAMMAR")
M("c10-re-double-colon", "C10", [("chord", "^((N|X)|(([A-G](b*|#*))((:(maj|", "^((N|X)|(([A-G](b*|#*))((:+(maj|")], rule="C10.GRAMMAR")
M("c10-re-root-lower", "C10", [("chord", "^((N|X)|(([A-G](b*|#*))", "^((N|X)|(([A-Ga-g](b*|#*))")], rule="C10.GRAMMAR")
M("c10-quality-bit", "C10", [("chord", '"min7": [1, 0, 0, 1, 0, 0, 0, 1, 0, 0, 1, 0],', '"min7": [1, 0, 0, 1, 0, 0, 0, 1, 0, 0, 0, 1],')], rule="C10.TABLES")
M("c10-redux-base", "C10", [("chord", '"min9": ("min7", set(["9"])),', '"min9": ("min", set(["9"])),')], rule="C10.TABLES")
M("c10-scale-degree", "C10", [("chord", "semitones = [0, 2, 4, 5, 7, 9, 11, 12, 14, 16, 17, 19, 21]", "semitones = [0, 2, 4, 5, 7, 9, 11, 12, 14, 15, 17, 19, 21]")], rule="C10.TABLES")
M("c10-raise-valueerror", "C10", [("chord", "        raise InvalidChordException(\n            \"Scale degree improperly formed", "        raise ValueError(\n            \"Scale degree improperly formed")], rule="C10.EXC")
M("c10-quality-unguarded", "C10", [("chord", "    if quality not in QUALITIES:\n        raise InvalidChordException(\n            \"Unsupported chord quality shorthand: '%s' \"\n            \"Did you mean to reduce extended chords?\" % quality\n        )\n", "")], rule="C10.EXC")
M("c10-root-nomod", "C10", [("chord", "    return semitone % 12\n", "    return semitone\n")], rule="C10.ENCODEPOST")
M("c10-bass-bit-dropped", "C10", [("chord", "    else:\n        semitone_bitmap[bass_number] = 1\n    return root_number", "    return root_number")], rule="C10.ENCODEPOST")
M("c10-not-binarised", "C10", [("chord", "    semitone_bitmap = (semitone_bitmap > 0).astype(np.int64)\n", "")], rule="C10.ENCODEPOST")
M("c10-x-sentinel", "C10", [("chord", "X_CHORD_ENCODED = -1, np.array([-1] * BITMAP_LENGTH), -1", "X_CHORD_ENCODED = -1, np.array([0] * BITMAP_LENGTH), -1")], rule="C10.TABLES")
M("c10-join-novalidate", "C10", [("chord", "    validate_chord_label(chord_label)\n    return chord_label\n", "    return chord_label\n")], rule="C10.SPLITSAFE")
M("c10-split-novalidate", "C10", [("chord", "    chord_label = str(chord_label)\n    validate_chord_label(chord_label)\n", "    chord_label = str(chord_label)\n")], rule="C10.SPLITSAFE")
M("c10-silent-re-reorder", "C10", [("chord", "(maj|min|dim|aug|1|5|sus2|sus4|", "(min|maj|aug|dim|5|1|sus4|sus2|")], expect="silent")
M("c10-silent-re-degree-form", "C10", [("chord", "(/((b*|#*)([1-9]|1[0-3]?)))?", "(/((b*|#*)(1[0-3]|[1-9])))?")], expect="silent")

# ------------------------------------------------------------------ C11
M("c11-thirds-index", "C11", [("chord", "eq_thirds = ref_semitones[:, 3] == est_semitones[:, 3]", "eq_thirds = ref_semitones[:, 3] == est_semitones[:, 4]")], rule="C11.CONJ")
M("c11-triads-prefix", "C11", [("chord", "    eq_semitones = np.all(np.equal(ref_semitones[:, :8], est_semitones[:, :8]), axis=1)\n    comparison_scores = (eq_roots * eq_semitones).astype(np.float64)", "    eq_semitones = np.all(np.equal(ref_semitones[:, :7], est_semitones[:, :7]), axis=1)\n    comparison_scores = (eq_roots * eq_semitones).astype(np.float64)")], rule="C11.CONJ")
M("c11-tetrads-inv-nobass", "C11", [("chord", "comparison_scores = (eq_roots * eq_semitones * eq_basses).astype(np.float64)", "comparison_scores = (eq_roots * eq_semitones).astype(np.float64)", 1)], rule="C11.CONJ")
M("c11-mask-est", "C11", [("chord", "    comparison_scores[np.any(ref_semitones < 0, axis=1)] = -1.0\n    return comparison_scores\n\n\ndef thirds_inv", "    comparison_scores[np.any(est_semitones < 0, axis=1)] = -1.0\n    return comparison_scores\n\n\ndef thirds_inv")], rule="C11.MASKREFONLY")
M("c11-mask-both", "C11", [("chord", "    comparison_scores[np.any(ref_semitones < 0, axis=1)] = -1.0\n    return comparison_scores\n\n\ndef triads_inv", "    comparison_scores[np.any(ref_semitones < 0, axis=1) | np.any(est_semitones < 0, axis=1)] = -1.0\n    return comparison_scores\n\n\ndef triads_inv")], rule="C11.MASKREFONLY")
M("c11-majmin-vocab", "C11", [("chord", '    min_semitones = np.array(QUALITIES["min"][:8])\n\n    ref_roots, ref_semitones, _ = encode_many', '    min_semitones = np.array(QUALITIES["dim"][:8])\n\n    ref_roots, ref_semitones, _ = encode_many')], rule="C11.VOCAB")
M("c11-sevenths-vocab", "C11", [("chord", '    seventh_qualities = ["maj", "min", "maj7", "7", "min7", ""]\n    valid_semitones = np.array([QUALITIES[name] for name in seventh_qualities])\n\n    ref_roots, ref_semitones = encode_many', '    seventh_qualities = ["maj", "min", "maj7", "7", "min7", "dim7", ""]\n    valid_semitones = np.array([QUALITIES[name] for name in seventh_qualities])\n\n    ref_roots, ref_semitones = encode_many')], rule="C11.VOCAB")
M("c11-mirex-threshold", "C11", [("chord", "        ref_semitone_count > 0, ref_semitone_count < min_intersection\n", "        ref_semitone_count > 0, ref_semitone_count < 2\n")], rule="C11.MIREXCONST")
M("c11-mirex-norotate", "C11", [("chord", "    est_chroma = rotate_bitmaps_to_roots(est_data[1], est_data[0])", "    est_chroma = rotate_bitmaps_to_roots(est_data[1], ref_data[0])")], rule="C11.MIREXCONST")
M("c11-mirex-noN", "C11", [("chord", "    comparison_scores[no_root] = 1.0\n", "")], rule="C11.MIREXCONST")
M("c11-ternary-half", "C11", [("chord", "    comparison_scores[np.any(ref_semitones < 0, axis=1)] = -1.0\n    return comparison_scores\n\n\ndef tetrads_inv", "    comparison_scores[np.any(ref_semitones < 0, axis=1)] = -0.5\n    return comparison_scores\n\n\ndef tetrads_inv")], rule="C11.TERNARY")
M("c11-reduce-true", "C11", [("chord", "    ref_roots, ref_semitones = encode_many(reference_labels, False)[:2]\n    est_roots, est_semitones = encode_many(estimated_labels, False)[:2]\n\n    eq_roots = ref_roots == est_roots\n    eq_semitones = np.all(np.equal(ref_semitones, est_semitones), axis=1)", "    ref_roots, ref_semitones = encode_many(reference_labels, True)[:2]\n    est_roots, est_semitones = encode_many(estimated_labels, False)[:2]\n\n    eq_roots = ref_roots == est_roots\n    eq_semitones = np.all(np.equal(ref_semitones, est_semitones), axis=1)")], rule="C11.CONJ")
M("c11-inv-chordtone", "C11", [("chord", "    valid_inversion[bass_idx] = ref_semitones[bass_idx, ref_bass[bass_idx]]\n", "    valid_inversion[bass_idx] = est_semitones[bass_idx, ref_bass[bass_idx]]\n")], rule="C11.VOCAB")
M("c11-silent-logical-and", "C11", [("chord", "    comparison_scores = (eq_roots * eq_thirds).astype(np.float64)", "    comparison_scores = np.logical_and(eq_roots, eq_thirds).astype(np.float64)")], expect="silent")
M("c11-silent-unpack3", "C11", [("chord", "    ref_roots, ref_semitones = encode_many(reference_labels, False)[:2]\n    est_roots, est_semitones = encode_many(estimated_labels, False)[:2]\n\n    eq_roots = ref_roots == est_roots\n    eq_thirds", "    ref_roots, ref_semitones, _rb = encode_many(reference_labels, False)\n    est_roots, est_semitones, _eb = encode_many(estimated_labels, False)\n\n    eq_roots = ref_roots == est_roots\n    eq_thirds")], expect="silent")
