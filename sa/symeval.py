"""Syntax-directed summariser (DESIGN 3.2/3.3): for each function, walk the
statements once, keep an environment name -> provenance term, a path
condition, and record *sites* (calls, divisions, comparisons, mutations,
raises, returns) with the path condition under which they execute.

Nothing is executed: branches are both taken and merged with ``ite`` terms,
loops are walked once with loop-carried names abstracted.  This replaces the
explicit CFG of the design: dominance questions ("is this division guarded by
an emptiness test") are answered from the recorded path conditions, which
include the negations contributed by earlier ``if c: return/raise`` exits.
"""

from __future__ import annotations

import ast

from . import terms as tm
from .known import KNOWN_FUNCS, KNOWN_GLOBALS
from .model import AnalysisError

MUTATOR_METHODS = {
    "append",
    "insert",
    "extend",
    "sort",
    "pop",
    "remove",
    "clear",
    "update",
    "setdefault",
    "fill",
    "resize",
    "put",
    "reverse",
    "add",
    "discard",
    "popitem",
    "itemset",
    "partition",
    "setflags",
    "byteswap",
    "__setitem__",
    "__delitem__",
}
# numpy free functions that write their first argument
INPLACE_FIRSTARG = {"np.place", "np.put", "np.copyto", "np.fill_diagonal", "np.putmask", "np.put_along_axis", "random.shuffle", "np.random.shuffle"}
UFUNC_OUT3 = {
    "np.logical_or",
    "np.logical_and",
    "np.add",
    "np.subtract",
    "np.multiply",
    "np.divide",
    "np.maximum",
    "np.minimum",
    "np.logical_xor",
    "np.power",
    "np.mod",
}
UFUNC_OUT2 = {"np.abs", "np.sqrt", "np.exp", "np.log", "np.log2", "np.negative", "np.floor", "np.ceil", "np.logical_not", "np.round", "np.clip"}

BINOPS = {
    ast.Add: "+",
    ast.Sub: "-",
    ast.Mult: "*",
    ast.Div: "/",
    ast.FloorDiv: "//",
    ast.Mod: "%",
    ast.Pow: "**",
    ast.BitAnd: "&",
    ast.BitOr: "|",
    ast.BitXor: "^",
    ast.LShift: "<<",
    ast.RShift: ">>",
    ast.MatMult: "@",
}
CMPOPS = {
    ast.Eq: "==",
    ast.NotEq: "!=",
    ast.Lt: "<",
    ast.LtE: "<=",
    ast.Gt: ">",
    ast.GtE: ">=",
    ast.Is: "is",
    ast.IsNot: "isnot",
    ast.In: "in",
    ast.NotIn: "notin",
}
UNOPS = {ast.Not: "not", ast.USub: "-", ast.UAdd: "+", ast.Invert: "~"}

BUILTINS = set(dir(__builtins__)) if not isinstance(__builtins__, dict) else set(__builtins__)


class Site(object):
    __slots__ = ("kind", "func", "node", "lineno", "pc", "d")

    def __init__(self, kind, func, node, pc, **d):
        self.kind = kind
        self.func = func
        self.node = node
        self.lineno = getattr(node, "lineno", func.lineno)
        self.pc = pc
        self.d = d

    def __getattr__(self, k):
        try:
            return self.d[k]
        except KeyError:
            raise AttributeError(k)

    def loc(self):
        return self.func.loc(self.node)


class Summary(object):
    def __init__(self, func):
        self.func = func
        self.returns = []  # Site(kind='return', term=...)
        self.sites = []
        self.param_terms = {}
        self.final_env = None
        self.falls_through = False  # reaches end of body without return
        self.def_envs = {}  # nested func name -> env at def time
        self.loops = {}  # loop id -> (node, iter term)
        self.n_stmts = 0
        self.inlined = []  # quals of new helpers evaluated in place

    def by_kind(self, kind):
        return [s for s in self.sites if s.kind == kind]

    def calls(self, callee=None):
        out = []
        for s in self.sites:
            if s.kind == "call" and (callee is None or s.d.get("callee") == callee):
                out.append(s)
        return out


class Summaries(object):
    """Lazy per-function summaries + module-level environments."""

    def __init__(self, program):
        self.program = program
        self._sum = {}
        self._modenv = {}
        self.glob_terms = {}
        for name in sorted(program.modules):
            self._module_env(program.modules[name])

    def _module_env(self, module):
        if module.name in self._modenv:
            return self._modenv[module.name]
        ev = Evaluator(self, None, module)
        env = {}
        self._modenv[module.name] = env
        for st in module.toplevel_stmts:
            try:
                out = ev.run([st], env)
            except AnalysisError:
                raise
            if out is not None and out is not env:
                # compound statements (for / if / try at module level) hand back a new environment
                env.clear()
                env.update(out)
        for k, v in env.items():
            self.glob_terms["%s.%s" % (module.name, k)] = v
        self._modsites = getattr(self, "_modsites", {})
        self._modsites[module.name] = ev.summary.sites
        self._modloops = getattr(self, "_modloops", {})
        for lid, (node, it) in ev.summary.loops.items():
            self._modloops[(module.name, lid)] = it
        return env

    def module_sites(self, modname):
        return self._modsites.get(modname, [])

    def get(self, qual):
        if qual in self._sum:
            return self._sum[qual]
        f = self.program.func(qual)
        if f.parent is not None:
            # nested: summarise the parent first (it registers the closure env)
            self.get(f.parent.qual)
            if qual in self._sum:
                return self._sum[qual]
        return self._summarise(f, None)

    def _summarise(self, f, closure):
        ev = Evaluator(self, f, f.module, closure)
        s = ev.summarise()
        self._sum[f.qual] = s
        # nested functions: closure = env at def time overlaid on final names
        for name, g in f.nested.items():
            cenv = dict(s.def_envs.get(name, {}))
            for other in f.nested:
                cenv[other] = tm.mk("localfunc", f.nested[other].qual)
            self._summarise(g, cenv)
        return s

    def all(self):
        out = []
        for f in self.program.all_funcs():
            out.append(self.get(f.qual))
        return out


class _LoopCtx(object):
    def __init__(self, lid):
        self.lid = lid
        self.exits = []  # envs at break
        self.continues = []


class Evaluator(object):
    def __init__(self, summaries, func, module, closure=None):
        self.S = summaries
        self.P = summaries.program
        self.func = func
        self.module = module
        self.closure = closure or {}
        self.pc = ()
        self.loopstack = []
        self.inline_frames = []
        self.nloops = 0
        self.ncomps = 0
        if func is not None:
            self.summary = Summary(func)
        else:
            # module-level pseudo function
            class _F(object):
                pass

            pf = _F()
            pf.module = module
            pf.qual = module.name + ".<module>"
            pf.name = "<module>"
            pf.lineno = 1
            pf.loc = lambda node=None, m=module: "mir_eval/%s.py:%d" % (m.name, getattr(node, "lineno", 1) or 1)
            pf.nested = {}
            pf.parent = None
            pf.params = []
            self.func = pf
            self.summary = Summary(pf)

    # ------------------------------------------------------------------ driver
    def summarise(self):
        f = self.func
        env = {}
        for p in f.all_params:
            env[p] = tm.param(p)
            self.summary.param_terms[p] = env[p]
        out = self.run(f.node.body, env)
        if out is not None:
            self.summary.falls_through = True
            self.summary.final_env = out
        return self.summary

    def site(self, kind, node, **d):
        if kind == "call" and d.get("callee") == "np.nonzero":
            d["callee"] = "np.where"  # one name for the one-argument index selection
        if kind == "call" and d.get("callee") in ("re.match", "re.fullmatch", "re.search") and len(d.get("args") or ()) == 2 and d["args"][0].op == "glob":
            # re.match(PATTERN, s) is PATTERN.match(s)
            d["method"] = d["callee"].split(".")[-1]
            d["base"] = d["args"][0]
            d["args"] = tuple(d["args"][1:])
            d["callee"] = "." + d["method"]
            d["fn"] = None
        if kind == "call" and d.get("method") in tm.METHOD_ALIASES and d.get("base") is not None and d.get("fn") is None:
            # x.max(...) is recorded as the call np.max(x, ...) it abbreviates (the term is normalised the same way)
            d["callee"] = tm.METHOD_ALIASES[d["method"]]
            d["args"] = (d["base"],) + tuple(d.get("args") or ())
            d["fn"] = tm.ext(d["callee"])
            d["base"] = None
            d["method"] = None
        s = Site(kind, self.func, node, self.pc, **d)
        self.summary.sites.append(s)
        return s

    # -------------------------------------------------------------- statements
    def run(self, stmts, env):
        """Execute a block; returns the continuing env or None if every path left."""
        saved = self.pc
        try:
            for st in stmts:
                self.summary.n_stmts += 1
                env = self.stmt(st, env)
                if env is None:
                    return None
            return env
        finally:
            self.pc = saved

    def run_keep_pc(self, stmts, env):
        for st in stmts:
            self.summary.n_stmts += 1
            env = self.stmt(st, env)
            if env is None:
                return None
        return env

    def stmt(self, st, env):
        if isinstance(st, ast.Assign) and len(st.targets) == 1 and isinstance(st.targets[0], ast.Name) and isinstance(st.value, ast.Attribute) and isinstance(st.value.value, ast.Name) and st.value.attr in BOUND_METHOD_NAMES and st.value.value.id in env and not _is_module_term(env[st.value.value.id]) and st.value.value.id != st.targets[0].id:
            # get = G.get / add = xs.append: a bound method of a local container is bound to the *object*; calls through
            # the alias are calls of the method on the container as it is then (and mutate it like the method does)
            env[st.targets[0].id] = tm.mk("boundmeth", st.value.value.id, st.value.attr)
            self.__dict__.setdefault("_bound_aliases", {})[st.targets[0].id] = (st.value.value.id, st.value.attr)
            return env
        if isinstance(st, ast.Assign):
            v = self.ev(st.value, env)
            for tg in st.targets:
                self.assign(tg, v, env, st)
                if isinstance(tg, ast.Name):
                    views = self.__dict__.setdefault("_views", {})
                    views.pop(tg.id, None)
                    sv = st.value
                    if isinstance(sv, ast.Subscript) and isinstance(sv.value, ast.Name) and isinstance(sv.slice, ast.Slice) and sv.value.id in env and sv.value.id != tg.id and _is_local_buffer(env[sv.value.id]):
                        # w = buf[a:b] of a local buffer is a view: stores through w are stores into buf
                        views[tg.id] = (sv.value.id, self.ev_index(sv.slice, env))
            return env
        if isinstance(st, ast.AnnAssign):
            if st.value is not None:
                self.assign(st.target, self.ev(st.value, env), env, st)
            return env
        if isinstance(st, ast.AugAssign):
            self.augassign(st, env)
            return env
        if isinstance(st, ast.Expr):
            self.expr_stmt(st, env)
            return env
        if isinstance(st, ast.Return):
            t = self.ev(st.value, env) if st.value is not None else tm.none()
            if self.inline_frames:
                fr = self.inline_frames[-1]
                if [c_ for c_ in self.loopstack[fr.loop_depth :] if not getattr(c_, "unrolled", False)]:
                    fr.failed = True  # a return from inside a (real) loop of the helper: not modelled
                fr.returns.append((t, self.pc))
                fr.return_envs.append(dict(env))
                return None
            if SPLIT_ITE_RETURNS and t.op == "ite" and (isinstance(st.value, ast.IfExp) or (isinstance(st.value, ast.Call) and t.id in getattr(self, "_inline_results", ()))):
                # `return a if c else b` is `if c: return a` / `return b`: one return site per alternative
                saved = self.pc
                stack = [(t, ())]
                while stack:
                    x, extra = stack.pop(0)
                    if x.op == "ite" and len(extra) < 4:
                        stack.insert(0, (x.a[2], extra + (("if", x.a[0], False, "return"),)))
                        stack.insert(0, (x.a[1], extra + (("if", x.a[0], True, None),)))
                        continue
                    self.pc = saved + extra
                    s = self.site("return", st, term=x, value_node=st.value)
                    self.summary.returns.append(s)
                self.pc = saved
                return None
            s = self.site("return", st, term=t, value_node=st.value)
            self.summary.returns.append(s)
            return None
        if isinstance(st, ast.Raise):
            exc = None
            if st.exc is not None:
                e = st.exc
                built = None
                if isinstance(e, ast.Call):
                    t_exc = self.ev(e, env)
                    # raise helper(...) where a new helper builds and returns the exception object
                    for alt in ([t_exc] if t_exc.op != "ite" else [t_exc.a[1], t_exc.a[2]]):
                        nm = tm.callee_name(alt.a[0]) if alt.op == "call" else None
                        if nm and nm.startswith("builtins.") and nm[9:].endswith(("Error", "Exception", "Warning")):
                            built = nm[9:]
                    e = e.func
                exc = ast.unparse(e)
                if built is not None and not (isinstance(e, ast.Name) and e.id == built):
                    exc = built
            self.site("raise", st, exc=exc, bare=st.exc is None)
            return None
        if isinstance(st, ast.If):
            return self.if_stmt(st, env)
        if isinstance(st, ast.For):
            return self.for_stmt(st, env)
        if isinstance(st, ast.While):
            return self.while_stmt(st, env)
        if isinstance(st, ast.Try):
            return self.try_stmt(st, env)
        if isinstance(st, ast.With):
            for it in st.items:
                c = self.ev(it.context_expr, env)
                if it.optional_vars is not None:
                    self.assign(it.optional_vars, tm.mk("with", c), env, st)
            return self.run_keep_pc(st.body, env)
        if isinstance(st, ast.Assert):
            c = self.ev(st.test, env)
            self.site("assert", st, cond=c)
            self.pc = self.pc + (("if", c, True, "raise"),)
            return env
        if isinstance(st, ast.FunctionDef):
            q = "%s.%s" % (self.func.qual, st.name)
            env[st.name] = tm.mk("localfunc", q)
            self.summary.def_envs[st.name] = dict(env)
            return env
        if isinstance(st, (ast.Pass, ast.Import, ast.ImportFrom)):
            if isinstance(st, (ast.Import, ast.ImportFrom)):
                self.site("local_import", st)
            return env
        if isinstance(st, ast.Break):
            if self.loopstack:
                self.loopstack[-1].exits.append(dict(env))
            return None
        if isinstance(st, ast.Continue):
            if self.loopstack:
                self.loopstack[-1].continues.append(dict(env))
            return None
        if isinstance(st, ast.Delete):
            for tg in st.targets:
                if isinstance(tg, ast.Subscript):
                    root = _root_name(tg)
                    cont = self.ev(tg.value, env)
                    idx = self.ev_index(tg.slice, env)
                    self.site("mutate", st, how="delitem", old=cont, root=root, key=idx)
                    if root in env:
                        env[root] = tm.upd(env[root], "delitem", idx, tm.none())
                elif isinstance(tg, ast.Name):
                    env.pop(tg.id, None)
            return env
        if isinstance(st, (ast.Global, ast.Nonlocal)):
            self.site("global_decl", st, names=list(st.names))
            return env
        if isinstance(st, ast.ClassDef):
            return env
        raise AnalysisError("SYMEVAL", "unsupported statement %s at %s" % (type(st).__name__, self.func.loc(st)))

    def _exit_kind(self, start):
        kinds = set()
        for x in self.summary.sites[start:]:
            if x.kind in ("raise", "return"):
                kinds.add(x.kind)
        if kinds == {"raise"}:
            return "raise"
        if kinds == {"return"}:
            return "return"
        return "mixed"

    def _assume_env(self, env, c, pol):
        """the environment inside a branch: values that were chosen on this very condition are the chosen ones"""
        facts = []

        def split(x, p_):
            while x.op == "un" and x.a[0] == "not":
                x, p_ = x.a[1], not p_
            if x.op == "bool" and ((x.a[0] == "or" and not p_) or (x.a[0] == "and" and p_)):
                # `a or b` is false: both are false; `a and b` is true: both are true
                for y in x.a[1:]:
                    split(y, p_)
                return
            if x.op == "cmp" and x.a[0] in ("isnot", "notin", "!="):
                x = tm.cmp({"isnot": "is", "notin": "in", "!=": "=="}[x.a[0]], x.a[1], x.a[2])
                p_ = not p_
            facts.append((x, p_))

        split(c, pol)
        # ... and the test as a whole (values chosen on the very same compound test)
        cw, pw = c, pol
        while cw.op == "un" and cw.a[0] == "not":
            cw, pw = cw.a[1], not pw
        if not any(x is cw for x, _ in facts):
            facts.insert(0, (cw, pw))
        out = dict(env)
        for cc, p in facts[:8]:
            memo = {}
            for k, v in out.items():
                if hasattr(v, "op"):
                    out[k] = tm.assume(v, cc, p, memo)
        return out

    def if_stmt(self, st, env):
        c = self.ev(st.test, env)
        if c.op == "const" and isinstance(c.a[0], bool):
            # decided when an unrolled table row is substituted: only that branch exists
            return self.run_keep_pc(st.body if c.a[0] else st.orelse, env)
        saved = self.pc
        self.pc = saved + (("if", c, True, None),)
        n0 = len(self.summary.sites)
        et = self.run_keep_pc(st.body, self._assume_env(env, c, True))
        pct = self.pc
        kt = self._exit_kind(n0) if et is None else None
        self.pc = saved + (("if", c, False, None),)
        n1 = len(self.summary.sites)
        ef = self.run_keep_pc(st.orelse, self._assume_env(env, c, False))
        pcf = self.pc
        kf = self._exit_kind(n1) if ef is None else None
        self.pc = saved
        if et is None and ef is None:
            return None
        if et is None:
            # rest of the enclosing block runs under not c (plus whatever the else branch established)
            self.pc = saved + (("if", c, False, kt),) + pcf[len(saved) + 1 :]
            return ef
        if ef is None:
            self.pc = saved + (("if", c, True, kf),) + pct[len(saved) + 1 :]
            return et
        ea = pct[len(saved) + 1 :]
        eb = pcf[len(saved) + 1 :]
        if ea or eb:
            self.pc = saved + (("either", c, ea, eb),)
        return self.merge(c, et, ef)

    def merge(self, c, et, ef):
        out = {}
        for k in set(et) | set(ef):
            a = et.get(k)
            b = ef.get(k)
            if a is None:
                a = tm.undef(k)
            if b is None:
                b = tm.undef(k)
            out[k] = tm.ite(c, a, b)
        return out

    def merge_many(self, envs, tag):
        envs = [e for e in envs if e is not None]
        if not envs:
            return None
        out = envs[0]
        for i, e in enumerate(envs[1:]):
            out = self.merge(tm.mk("nondet", tag, i), out, e)
        return out

    def _assigned_names(self, stmts):
        names = set()
        for st in stmts:
            for n in ast.walk(st):
                if isinstance(n, (ast.Assign, ast.AugAssign, ast.AnnAssign, ast.For, ast.With, ast.Delete)):
                    tgs = []
                    if isinstance(n, ast.Assign):
                        tgs = n.targets
                    elif isinstance(n, (ast.AugAssign, ast.AnnAssign)):
                        tgs = [n.target]
                    elif isinstance(n, ast.For):
                        tgs = [n.target]
                    elif isinstance(n, ast.With):
                        tgs = [i.optional_vars for i in n.items if i.optional_vars is not None]
                    elif isinstance(n, ast.Delete):
                        tgs = n.targets
                    for tg in tgs:
                        for x in ast.walk(tg):
                            if isinstance(x, ast.Name) and isinstance(x.ctx, (ast.Store, ast.Del)):
                                names.add(x.id)
                            elif isinstance(x, (ast.Subscript, ast.Attribute)) and isinstance(x.ctx, (ast.Store, ast.Del)):
                                r = _root_name(x)
                                if r:
                                    names.add(r)
                if isinstance(n, ast.Call) and isinstance(n.func, ast.Name) and n.func.id in self.module.funcs and ("%s.%s" % (self.module.name, n.func.id)) not in KNOWN_FUNCS:
                    # a new helper may change its list / array arguments in place; it is evaluated in place (try_inline)
                    g_ = self.module.funcs[n.func.id]
                    touched = _params_written_in_place(g_)
                    for i_, a_ in enumerate(n.args):
                        if isinstance(a_, ast.Name) and i_ < len(g_.params) and g_.params[i_] in touched:
                            names.add(a_.id)
                    for k in n.keywords:
                        if isinstance(k.value, ast.Name) and k.arg in touched:
                            names.add(k.value.id)
                if isinstance(n, ast.Expr) and isinstance(n.value, ast.Call):
                    cal = n.value
                    if isinstance(cal.func, ast.Name) and cal.func.id in getattr(self, "_bound_aliases", {}):
                        b_ = self._bound_aliases[cal.func.id]
                        if b_[1] in MUTATOR_METHODS:
                            names.add(b_[0])  # add = xs.append; add(v) inside the loop writes xs
                    if isinstance(cal.func, ast.Attribute) and cal.func.attr in MUTATOR_METHODS:
                        r = _root_name(cal.func.value)
                        if r:
                            names.add(r)
                    # out= / third positional
                    for kw in cal.keywords:
                        if kw.arg == "out":
                            r = _root_name(kw.value)
                            if r:
                                names.add(r)
                    if len(cal.args) == 3:
                        r = _root_name(cal.args[2])
                        if r:
                            names.add(r)
                elif isinstance(n, ast.FunctionDef):
                    names.add(n.name)
        return names

    def bind_iter(self, target, it_node, it, lid, env, node):
        """Bind loop/comprehension targets to element terms of ``it``."""
        name = None
        if it.op == "call":
            name = tm.callee_name(it.a[0])
        if name == "builtins.enumerate" and isinstance(target, (ast.Tuple, ast.List)) and len(target.elts) == 2:
            self.assign(target.elts[0], tm.mk("idx", lid), env, node)
            inner = it.a[1][0]
            self.bind_iter(target.elts[1], None, inner, lid, env, node)
            return
        if name == "builtins.zip" and isinstance(target, (ast.Tuple, ast.List)):
            zargs = it.a[1]
            if len(zargs) == len(target.elts) and not any(z.op == "star" for z in zargs):
                for tg, z in zip(target.elts, zargs):
                    self.bind_iter(tg, None, z, lid, env, node)
                return
        self.assign(target, tm.mk("iter", it, lid), env, node)

    def _unroll_elements(self, it):
        """elements of a loop over a literal collection (at most 16), or None"""
        if it.op in ("tuple", "list") and 1 <= len(it.a) <= 16:
            return list(it.a)
        if it.op == "call" and tm.callee_name(it.a[0]) == ".items" and len(it.a[1]) == 1 and it.a[1][0].op == "dict" and 1 <= len(it.a[1][0].a) <= 16:
            return [tm.tup(list(kv.a)) for kv in it.a[1][0].a]
        if it.op == "call" and tm.callee_name(it.a[0]) in (".values", ".keys") and len(it.a[1]) == 1 and it.a[1][0].op == "dict" and 1 <= len(it.a[1][0].a) <= 16 and all(kv.op == "tuple" and len(kv.a) == 2 and kv.a[0].op != "star" for kv in it.a[1][0].a):
            k_ = 1 if tm.callee_name(it.a[0]) == ".values" else 0
            return [kv.a[k_] for kv in it.a[1][0].a]  # the values / keys of a dict display, in insertion order
        if it.op == "call" and tm.callee_name(it.a[0]) == "builtins.zip" and len(it.a[1]) >= 2 and all(z.op in ("tuple", "list") for z in it.a[1]) and 1 <= min(len(z.a) for z in it.a[1]) <= 16:
            n = min(len(z.a) for z in it.a[1])
            return [tm.tup([z.a[i] for z in it.a[1]]) for i in range(n)]
        if it.op == "call" and tm.callee_name(it.a[0]) == "builtins.zip" and len(it.a[1]) >= 2 and not it.a[2] and any(z.op == "tuple" for z in it.a[1]) and all(z.op == "tuple" or (z.op == "call" and z.a[0].op in ("func", "localfunc")) for z in it.a[1]):
            # zip(<literal names>, <result tuple of a repo call>): pairs (name_i, result[i]) - the lengths agree
            # when the call returns as many values as there are names, which C03.ARITY / UNPACKORDER check
            lens = {len(z.a) for z in it.a[1] if z.op == "tuple"}
            if len(lens) == 1 and 1 <= min(lens) <= 16:
                n = lens.pop()
                for z in it.a[1]:
                    # zip stops at the shortest argument: a callee that returns a shorter tuple on every path
                    rl = self._syntactic_return_len(z.a[0]) if z.op == "call" else None
                    if rl is not None and 1 <= rl < n:
                        n = rl
                return [tm.tup([z.a[i] if z.op == "tuple" else tm.proj(z, i) for z in it.a[1]]) for i in range(n)]
        rows = self._array_rows(it)
        if rows is not None:
            return rows
        if it.op == "call" and tm.callee_name(it.a[0]) == "builtins.range" and len(it.a[1]) == 1 and not it.a[2] and it.a[1][0].op == "const" and isinstance(it.a[1][0].a[0], float) and it.a[1][0].a[0].is_integer() and 1 <= it.a[1][0].a[0] <= 16:
            return [tm.const(i) for i in range(int(it.a[1][0].a[0]))]  # range(<literal n>)
        if it.op == "call" and tm.callee_name(it.a[0]) == "builtins.enumerate" and len(it.a[1]) == 1 and not it.a[2]:
            inner = self._unroll_elements(it.a[1][0])
            if inner is not None:
                return [tm.tup([tm.const(i), x]) for i, x in enumerate(inner)]
        return None

    def _array_rows(self, t):
        """rows of np.array([r1, ..., rk]) built from a display of k non-scalar rows: a computed array is its own row,
        anything else (a list, a slice of a table) is the array made of it"""
        if t.op == "call" and tm.callee_name(t.a[0]) in ("np.array", "np.asarray", "np.stack", "np.vstack") and len(t.a[1]) == 1 and not t.a[2] and t.a[1][0].op in ("list", "tuple") and 1 <= len(t.a[1][0].a) <= 16:
            els = t.a[1][0].a
            if any(e.op in ("const", "star") or e.op == "param" for e in els):
                return None
            return [e if e.op == "call" else tm.call(tm.ext("np.array"), (e,)) for e in els]
        return None

    def _syntactic_return_len(self, fn):
        """n when every return statement of the repo function is a tuple display of n values, else None"""
        if fn.op not in ("func", "localfunc") or not self.P.has_func(fn.a[0]):
            return None
        g = self.P.func(fn.a[0])
        lens = set()
        for n in _own_nodes(g.node):
            if isinstance(n, ast.Return):
                if not isinstance(n.value, ast.Tuple) or any(isinstance(e, ast.Starred) for e in n.value.elts):
                    return None
                lens.add(len(n.value.elts))
        return lens.pop() if len(lens) == 1 else None

    def _unrolled(self, st, env, elems):
        """the unrolling of a loop over the listed elements; `continue` ends one copy of the body"""
        cur = env
        saved = self.pc
        for k_, e in enumerate(elems):
            self.assign(st.target, e, cur, st)
            ctx = _LoopCtx("U%d_%d" % (id(st) % 100000, k_))
            ctx.unrolled = True
            self.loopstack.append(ctx)
            out = self.run_keep_pc(st.body, cur)
            self.loopstack.pop()
            ends = ([out] if out is not None else []) + ctx.continues
            if not ends:
                self.pc = saved
                return None
            cur = ends[0] if len(ends) == 1 else self.merge_many(ends, ctx.lid + "c")
            if ctx.continues:
                self.pc = saved  # what one copy established under its own tests does not hold for the next
        return cur

    _ROW_REDUCERS = ("np.min", "np.max", "np.sum", "np.mean", "np.any", "np.all", "np.amin", "np.amax", "np.argmin", "np.argmax")
    _ELEMENTWISE = ("np.abs", "np.absolute", "np.square", "np.exp", "np.sqrt", "np.around", "np.round", "np.fabs", "np.negative")

    def _row_iteration(self, it, lid):
        """for v in reduce(E(a[:, None] - b), axis=1)  is  for x in a: v = reduce(E(x - b)): (a, element term) or None"""
        if it.op != "call" or tm.callee_name(it.a[0]) not in self._ROW_REDUCERS:
            return None
        args, kw = it.a[1], dict(it.a[2])
        axis = kw.get("axis", args[1] if len(args) > 1 else None)
        if not args or axis is None or not (tm.is_const(axis, 1) or tm.is_const(axis, -1)):
            return None
        E = args[0]
        outers = []
        ok = [True]

        def scan(x, top):
            if x.op == "call" and tm.callee_name(x.a[0]) == "np.subtract.outer" and len(x.a[1]) == 2:
                outers.append(x)
                return
            if x.op == "bin" or x.op == "cmp":
                scan(x.a[1], False)
                scan(x.a[2], False)
                return
            if x.op == "un":
                scan(x.a[1], False)
                return
            if x.op == "call" and tm.callee_name(x.a[0]) in self._ELEMENTWISE and x.a[1]:
                scan(x.a[1][0], False)
                for z in x.a[1][1:]:
                    if any(y.op == "call" and tm.callee_name(y.a[0]) == "np.subtract.outer" for y in tm.walk(z)):
                        ok[0] = False
                return
            if any(y.op == "call" and tm.callee_name(y.a[0]) == "np.subtract.outer" for y in tm.walk(x)):
                ok[0] = False

        scan(E, True)
        if not ok[0] or len({o.id for o in outers}) != 1:
            return None
        o = outers[0]
        a, b = o.a[1]
        row = tm.binop("-", tm.mk("iter", a, lid), b)
        elem_E = tm.rebuild(E, lambda z: row if z is o else None)
        rest_kw = tuple((k, v) for k, v in it.a[2] if k != "axis")
        elem = tm.call(it.a[0], (elem_E,), rest_kw)
        return a, elem

    def for_stmt(self, st, env):
        st = _product_as_nested_loops(st)
        it = self.ev(st.iter, env)
        self._note_gen_iteration(st.iter, it)
        while it.op == "call" and tm.callee_name(it.a[0]) in ("builtins.list", "builtins.tuple", ".tolist") and len(it.a[1]) == 1 and not it.a[2]:
            it = it.a[1][0]  # iterating list(X) / X.tolist() visits the elements of X
        if it.op == "call" and tm.callee_name(it.a[0]) == "np.argwhere" and len(it.a[1]) == 1 and not it.a[2] and isinstance(st.target, (ast.Tuple, ast.List)):
            # the rows of np.argwhere(M) are the index tuples zip(*np.where(M))
            wh = tm.call(tm.ext("np.where"), (it.a[1][0],))
            self.site("call", st.iter, callee="np.where", fn=tm.ext("np.where"), base=None, args=(it.a[1][0],), kw=(), term=wh, via_filter=False, method=None)
            it = tm.call(tm.mk("builtin", "zip"), (tm.mk("star", wh),))
        if it.op == "call" and tm.callee_name(it.a[0]) == "builtins.zip" and len(it.a[1]) >= 2 and not it.a[2] and it.a[1][0].op == "call" and tm.callee_name(it.a[1][0].a[0]) == "itertools.count" and not it.a[1][0].a[2] and len(it.a[1][0].a[1]) <= 1 and isinstance(st.target, (ast.Tuple, ast.List)) and len(st.target.elts) == len(it.a[1]):
            # for j, a, b in zip(itertools.count(k), A, B)  is  for j, (a, b) in enumerate(zip(A, B), k)
            rest_t = st.target.elts[1] if len(st.target.elts) == 2 else ast.copy_location(ast.Tuple(elts=list(st.target.elts[1:]), ctx=ast.Store()), st.target)
            new_target = ast.copy_location(ast.Tuple(elts=[st.target.elts[0], rest_t], ctx=ast.Store()), st.target)
            st = ast.copy_location(ast.For(target=new_target, iter=st.iter, body=st.body, orelse=st.orelse, type_comment=None), st)
            rest_it = it.a[1][1] if len(it.a[1]) == 2 else tm.call(tm.mk("builtin", "zip"), tuple(it.a[1][1:]))
            it = tm.call(tm.mk("builtin", "enumerate"), (rest_it,) + tuple(it.a[1][0].a[1]))
            self.site("call", st.iter, callee="builtins.enumerate", fn=tm.mk("builtin", "enumerate"), base=None, args=tuple(it.a[1]), kw=(), term=it, via_filter=False, method=None)
        if it.op == "call" and tm.callee_name(it.a[0]) in ("itertools.chain", "itertools.chain.from_iterable") and it.a[1] and not it.a[2] and not st.orelse and not any(isinstance(n, ast.Break) for n in _own_loop_nodes(st)):
            # for x in itertools.chain(A, B): the loop over A followed by the loop over B
            parts_ = list(it.a[1])
            if tm.callee_name(it.a[0]) == "itertools.chain.from_iterable":
                parts_ = list(parts_[0].a) if len(parts_) == 1 and parts_[0].op in ("tuple", "list") else None
            if parts_ and not any(z.op == "star" for z in parts_):
                cur = env
                for a_ in parts_:
                    cur = self._for_core(st, cur, a_, None)
                    if cur is None:
                        return None
                return cur
        if it.op == "comp" and it.a[0] in ("gen", "list") and len(it.a[2]) == 2 and not it.a[3] and not st.orelse:
            # for x in (x for xs in (A, B) for x in xs): the flattened generator is the nested loops it abbreviates
            it1, it2 = it.a[2]
            cid = it.a[4]
            elems = self._unroll_elements(it1) if UNROLL else None
            if elems is not None and it.a[1] is tm.mk("iter", it2, cid) and not any(isinstance(n, ast.Break) for n in _own_loop_nodes(st)):
                el1 = tm.mk("iter", it1, cid)
                cur = env
                for e in elems:
                    it2e = tm.rebuild(it2, lambda z: e if z is el1 else None)
                    cur = self._for_core(st, cur, it2e, None)
                    if cur is None:
                        return None
                return cur
        if isinstance(st.target, ast.Name):
            rw = self._row_iteration(it, "L%d" % (self.nloops + 1))
            if rw is not None:
                return self._for_rows(st, env, rw[0], rw[1])
        elems = self._unroll_elements(it) if UNROLL else None
        if elems is not None and not st.orelse and not any(isinstance(n, ast.Break) for n in _own_loop_nodes(st)):
            # a loop over a literal collection is its unrolling
            return self._unrolled(st, env, elems)
        if UNROLL and it.op == "ite" and not st.orelse and not any(isinstance(n, (ast.Break, ast.Continue)) for n in _own_loop_nodes(st)):
            # a loop over one of two literal collections (`xs = [a]; if c: xs.append(b)`): the common leading elements
            # are visited either way, the rest under the test that selects the collection
            ea, eb = self._display_elements(it.a[1]), self._display_elements(it.a[2])
            if ea is not None and eb is not None and (ea or eb):
                k = 0
                while k < len(ea) and k < len(eb) and ea[k] is eb[k]:
                    k += 1
                cur = self._unrolled(st, env, ea[:k]) if k else env
                if cur is None:
                    return None
                c = it.a[0]
                saved = self.pc
                outs = []
                for pol, rest in ((True, ea[k:]), (False, eb[k:])):
                    self.pc = saved + (("if", c, pol, None),)
                    outs.append(self._unrolled(st, dict(cur), rest) if rest else dict(cur))
                self.pc = saved
                if outs[0] is None and outs[1] is None:
                    return None
                if outs[0] is None or outs[1] is None:
                    return outs[0] if outs[1] is None else outs[1]
                return self.merge(c, outs[0], outs[1])
        return self._for_core(st, env, it, None)

    def _display_elements(self, it):
        if it.op in ("tuple", "list") and not it.a:
            return []
        return self._unroll_elements(it)

    def _for_rows(self, st, env, a, elem):
        return self._for_core(st, env, a, elem)

    def _for_core(self, st, env, it, elem_override):
        self.nloops += 1
        lid = "L%d" % self.nloops
        self.summary.loops[lid] = (st, it)
        assigned = self._assigned_names(st.body) | {
            x.id for x in ast.walk(st.target) if isinstance(x, ast.Name)
        }
        pre = dict(env)
        body_env = dict(env)
        for n in assigned:
            if n in env:
                body_env[n] = tm.mk("loopvar", lid, n, env[n])
        ctx = _LoopCtx(lid)
        self.loopstack.append(ctx)
        saved = self.pc
        self.pc = saved + (("loop", lid, it),)
        if elem_override is not None:
            self.assign(st.target, elem_override, body_env, st)
        else:
            self.bind_iter(st.target, st.iter, it, lid, body_env, st)
        out = self.run_keep_pc(st.body, body_env)
        self.pc = saved
        self.loopstack.pop()
        ends = [out] + ctx.continues
        body_final = self.merge_many(ends, lid + "c")
        post = dict(pre)
        exits = [e for e in ctx.exits]
        if body_final is not None:
            exits.append(body_final)
        merged = self.merge_many(exits, lid + "x")
        if merged is not None:
            for n in assigned:
                if n in merged:
                    init = pre.get(n)
                    post[n] = tm.mk("loop", lid, n, init if init is not None else tm.undef(n), merged[n])
                    post[n] = self._as_comprehension(post[n], lid, n, init, merged[n], it, ctx)
        if st.orelse:
            post = self.run_keep_pc(st.orelse, post)
        return post

    def _as_comprehension(self, loop_term, lid, name, init, body, it, ctx):
        """`xs = []` followed by `for v in it: xs.append(E)` (nothing else touching xs, no break / continue) is the list
        comprehension [E for v in it]: both spellings get the same term."""
        if init is not None and init.op == "const" and init.a[0] in (0, 0.0) and not isinstance(init.a[0], bool) and not ctx.exits and not ctx.continues:
            # total = 0; for v in it: total += E   is   sum(E for v in it)
            if body.op == "bin" and body.a[0] == "+":
                lv = [z for z in (body.a[1], body.a[2]) if z.op == "loopvar" and z.a[0] == lid and z.a[1] == name]
                el = [z for z in (body.a[1], body.a[2]) if not (z.op == "loopvar" and z.a[0] == lid and z.a[1] == name)]
                if len(lv) == 1 and len(el) == 1 and not any(x.op == "loopvar" and x.a[0] == lid and x.a[1] == name for x in tm.walk(el[0])):
                    return tm.call(tm.mk("builtin", "sum"), (tm.mk("comp", "gen", el[0], (it,), (), lid),))
            return loop_term
        if init is None or not (init.op == "list" and not init.a) or ctx.exits or ctx.continues:
            return loop_term
        if body.op == "upd" and body.a[1] == "method:append" and body.a[0].op == "loopvar" and body.a[0].a[0] == lid and body.a[0].a[1] == name:
            val = body.a[3]
            if val.op == "tuple" and len(val.a) == 1:
                elt = val.a[0]
                # the element must not read the list being built
                if not any(x.op == "loopvar" and x.a[0] == lid and x.a[1] == name for x in tm.walk(elt)):
                    return tm.mk("comp", "list", elt, (it,), (), lid)
        return loop_term

    def while_stmt(self, st, env):
        self.nloops += 1
        lid = "L%d" % self.nloops
        assigned = self._assigned_names(st.body)
        pre = dict(env)
        body_env = dict(env)
        for n in assigned:
            if n in env:
                body_env[n] = tm.mk("loopvar", lid, n, env[n])
        c = self.ev(st.test, body_env)
        self.summary.loops[lid] = (st, c)
        ctx = _LoopCtx(lid)
        self.loopstack.append(ctx)
        saved = self.pc
        self.pc = saved + (("loop", lid, c),)
        out = self.run_keep_pc(st.body, body_env)
        self.pc = saved
        self.loopstack.pop()
        body_final = self.merge_many([out] + ctx.continues, lid + "c")
        exits = list(ctx.exits)
        if body_final is not None:
            exits.append(body_final)
        always_true = c.op == "const" and c.a[0] is True
        merged = self.merge_many(exits, lid + "x")
        if always_true and not ctx.exits:
            # while True without break: only leaves by return/raise
            return None
        post = dict(pre)
        if merged is not None:
            for n in assigned:
                if n in merged:
                    init = pre.get(n)
                    post[n] = tm.mk("loop", lid, n, init if init is not None else tm.undef(n), merged[n])
        if st.orelse:
            post = self.run_keep_pc(st.orelse, post)
        return post

    def try_stmt(self, st, env):
        saved = self.pc
        self.nloops += 1
        tid = "T%d" % self.nloops
        self.pc = saved + (("try", tid, tuple(_handler_types(st))),)
        body_env = self.run_keep_pc(st.body, dict(env))
        self.pc = saved
        if body_env is not None and st.orelse:
            body_env = self.run_keep_pc(st.orelse, body_env)
        outs = [body_env]
        # handlers start from "anything the body may have assigned"
        assigned = self._assigned_names(st.body)
        for h in st.handlers:
            henv = dict(env)
            for n in assigned:
                if body_env is not None and n in body_env:
                    henv[n] = tm.ite(tm.mk("nondet", tid, n), body_env[n], env.get(n, tm.undef(n)))
            if h.name:
                henv[h.name] = tm.mk("exc", tid, ast.unparse(h.type) if h.type is not None else "BaseException")
            self.pc = saved + (("except", tid, ast.unparse(h.type) if h.type is not None else None),)
            self.site("handler", h, exc=ast.unparse(h.type) if h.type is not None else None, tid=tid)
            outs.append(self.run_keep_pc(h.body, henv))
            self.pc = saved
        res = self.merge_many(outs, tid)
        if st.finalbody:
            if res is None:
                self.run_keep_pc(st.finalbody, dict(env))
                return None
            res = self.run_keep_pc(st.finalbody, res)
        return res

    # ------------------------------------------------------------- assignments
    def _loop_depth(self):
        return sum(1 for x in self.pc if x[0] == "loop")

    def _note_gen_iteration(self, iter_node, it):
        """a generator object held in a variable can be consumed once: iterating it inside a loop / comprehension that
        was entered after it was created, or a second time, sees it exhausted"""
        if not isinstance(iter_node, ast.Name) or it.op != "comp" or it.a[0] != "gen":
            return
        made = getattr(self, "_gen_made", {}).get(iter_node.id)
        if made is None or made[1] != it.id:
            return
        used = self.__dict__.setdefault("_gen_used", {})
        n = used.get(iter_node.id, 0)
        used[iter_node.id] = n + 1
        if self._loop_depth() > made[0] or n >= 1:
            self.site("gen_reuse", iter_node, name=iter_node.id, nested=self._loop_depth() > made[0])

    def assign(self, tg, v, env, node):
        if isinstance(tg, ast.Name):
            env[tg.id] = v
            if hasattr(v, "op") and v.op == "comp" and v.a[0] == "gen":
                self.__dict__.setdefault("_gen_made", {})[tg.id] = (self._loop_depth(), v.id)
            return
        if isinstance(tg, (ast.Tuple, ast.List)):
            n = len(tg.elts)
            self.site("unpack", node, n=n, value=v, starred=any(isinstance(e, ast.Starred) for e in tg.elts))
            rows = self._array_rows(v) if hasattr(v, "op") and not any(isinstance(e, ast.Starred) for e in tg.elts) else None
            star_at = [i_ for i_, e_ in enumerate(tg.elts) if isinstance(e_, ast.Starred)]
            for k, e in enumerate(tg.elts):
                if isinstance(e, ast.Starred) and len(star_at) == 1 and hasattr(v, "op"):
                    # first, *rest = xs: rest is xs[1:] (as a list); *init, last = xs: init is xs[:-1]
                    after = n - k - 1
                    self.assign(e.value, tm.sub(v, tm.mk("slice", tm.const(k) if k else tm.none(), tm.const(-after) if after else tm.none(), tm.none())), env, node)
                elif isinstance(e, ast.Starred):
                    self.assign(e.value, tm.unk("starred"), env, node)
                elif len(star_at) == 1 and k > star_at[0] and hasattr(v, "op"):
                    self.assign(e, tm.sub(v, tm.const(k - n)), env, node)  # an element after the starred one: counted from the end
                elif rows is not None and len(rows) == n:
                    self.assign(e, rows[k], env, node)  # a, b = np.array([A, B]): the rows
                else:
                    self.assign(e, tm.proj(v, k), env, node)
            return
        if isinstance(tg, ast.Subscript):
            root = _root_name(tg)
            cont = self.ev(tg.value, env)
            idx = self.ev_index(tg.slice, env)
            ms = self.site("mutate", node, how="setitem", old=cont, root=root, key=idx, val=v, target=tg)
            if root is not None and root in env:
                key = idx if isinstance(tg.value, ast.Name) else tm.mk("at", cont, idx)
                env[root] = tm.upd(env[root], "setitem", key, v)
                ms.d["new"] = env[root]
                self._store_through_view(root, idx, v, env)
            return
        if isinstance(tg, ast.Attribute):
            root = _root_name(tg)
            cont = self.ev(tg.value, env)
            self.site("mutate", node, how="setattr", old=cont, root=root, key=tm.const(tg.attr), val=v, target=tg)
            if root is not None and root in env:
                env[root] = tm.upd(env[root], "setattr", tm.const(tg.attr), v)
            return
        if isinstance(tg, ast.Starred):
            self.assign(tg.value, tm.unk("starred"), env, node)
            return
        raise AnalysisError("SYMEVAL", "unsupported assignment target at %s" % self.func.loc(node))

    def _store_through_view(self, name, idx, val, env):
        """name[idx] = val where name is a slice view of a local buffer: the buffer receives the store too (at the
        position `idx` *within* the slice - kept as the pair, not composed)"""
        v = getattr(self, "_views", {}).get(name)
        if v is None or v[0] not in env:
            return
        env[v[0]] = tm.upd(env[v[0]], "setitem", tm.mk("via", v[1], idx), val)

    def augassign(self, st, env):
        op = BINOPS[type(st.op)]
        v = self.ev(st.value, env)
        tg = st.target
        if isinstance(tg, ast.Name):
            old = self.lookup(tg.id, env, tg)
            if op == "/":
                self.site("div", st, num=old, den=v)
            cc = self._concat(op, old, v)
            if cc is not None:
                env[tg.id] = cc  # a tuple is immutable: `t += u` re-binds t
                return
            new = tm.binop(op, old, v)
            self.site("mutate", st, how="aug", old=old, root=tg.id, key=tm.const(op), val=v, target=tg)
            env[tg.id] = new
            return
        if isinstance(tg, ast.Subscript):
            root = _root_name(tg)
            cont = self.ev(tg.value, env)
            idx = self.ev_index(tg.slice, env)
            cur = tm.sub(cont, idx)
            if op == "/":
                self.site("div", st, num=cur, den=v)
            new = tm.binop(op, cur, v)
            self.site("mutate", st, how="setitem", old=cont, root=root, key=idx, val=new, target=tg, aug=op)
            if root is not None and root in env:
                key = idx if isinstance(tg.value, ast.Name) else tm.mk("at", cont, idx)
                env[root] = tm.upd(env[root], "setitem", key, new)
                self._store_through_view(root, idx, new, env)
            return
        if isinstance(tg, ast.Attribute):
            root = _root_name(tg)
            cont = self.ev(tg.value, env)
            cur = tm.attr(cont, tg.attr)
            new = tm.binop(op, cur, v)
            self.site("mutate", st, how="setattr", old=cont, root=root, key=tm.const(tg.attr), val=new, target=tg)
            if root is not None and root in env:
                env[root] = tm.upd(env[root], "setattr", tm.const(tg.attr), new)
            return
        raise AnalysisError("SYMEVAL", "unsupported augmented target at %s" % self.func.loc(st))

    def expr_stmt(self, st, env):
        v = self._debound(st.value, env)
        if isinstance(v, ast.Call):
            res = self.ev(v, env)
            # statement-level effects on local names
            if isinstance(v.func, ast.Attribute) and v.func.attr in MUTATOR_METHODS:
                root = _root_name(v.func.value)
                already = any(x.kind == "mutate" and x.node is v and x.d.get("applied") for x in self.summary.sites[-6:]) or id(v) in getattr(self, "_noop_calls", ())
                if root is not None and root in env and not _is_module_term(env[root]) and not already:
                    # reuse the terms computed when the call expression was evaluated (no second evaluation, no duplicate sites)
                    cs = None
                    for x in reversed(self.summary.sites):
                        if x.kind == "call" and x.node is v:
                            cs = x
                            break
                    if cs is not None and cs.base is not None:
                        cont, args = cs.base, tuple(cs.args)
                    else:
                        cont = self.ev(v.func.value, env)
                        args = tuple(self.ev(a, env) if not isinstance(a, ast.Starred) else tm.mk("star", self.ev(a.value, env)) for a in v.args)
                    key = tm.none() if isinstance(v.func.value, ast.Name) else tm.mk("at", cont, tm.none())
                    if v.func.attr == "append" and isinstance(v.func.value, ast.Name) and env[root].op == "list" and len(args) == 1 and args[0].op != "star" and not [c_ for c_ in self.loopstack if not getattr(c_, "unrolled", False)]:
                        # xs = [a]; xs.append(b) in straight-line code is xs = [a, b]
                        env[root] = tm.lst(list(env[root].a) + [args[0]])
                    else:
                        env[root] = tm.upd(env[root], "method:" + v.func.attr, key, tm.tup(args))
                    for ms in reversed(self.summary.sites):
                        if ms.kind == "mutate" and ms.node is v:
                            ms.d["new"] = env[root]
                            break
            else:
                name = tm.callee_name(res.a[0]) if res.op == "call" else None
                outnode = None
                for kw in v.keywords:
                    if kw.arg == "out":
                        outnode = kw.value
                if outnode is None and name in UFUNC_OUT3 and len(v.args) == 3:
                    outnode = v.args[2]
                if outnode is None and name in UFUNC_OUT2 and len(v.args) == 2:
                    outnode = v.args[1]
                if outnode is None and name in INPLACE_FIRSTARG and v.args:
                    outnode = v.args[0]
                if outnode is not None:
                    root = _root_name(outnode)
                    if root is not None and root in env:
                        cur = env[root]
                        if cur is res and isinstance(outnode, ast.Name):
                            pass  # f(x, .., out=x): the call expression has already bound x to the value of f(x, ..)
                        else:
                            env[root] = tm.upd(cur, "out", tm.none(), res)
            return
        self.ev(v, env)

    # ------------------------------------------------------------- expressions
    def lookup(self, name, env, node=None):
        if name in env:
            t = env[name]
            if _maybe_undef(t):
                self.site("maybe_undef", node, name=name, term=t)
            return t
        if name in self.closure:
            return self.closure[name]
        f = self.func
        # enclosing function params (closures)
        if name in self.module.funcs:
            return tm.func("%s.%s" % (self.module.name, name))
        if name in self.module.const_nodes:
            q = "%s.%s" % (self.module.name, name)
            if q not in KNOWN_GLOBALS:
                v = _literal_of_node(self.module.const_nodes[name])
                if v is not _NOLIT:
                    return tm.const(v)
                t = self._new_table(self.module.name, name)
                if t is not None:
                    return t
            return tm.glob(q)
        if name in self.module.classes:
            return tm.mk("class", "%s.%s" % (self.module.name, name))
        r = self.P.resolve_import(self.module, name)
        if r is not None:
            kind, q = r
            if kind == "repomod":
                return tm.mk("mod", q)
            if kind == "repofunc":
                return tm.func(q)
            if kind == "repoglob":
                return tm.glob(q)
            if kind == "extmod":
                return tm.mk("mod", "ext:" + q)
            return tm.ext(q)
        if name in BUILTINS:
            return tm.mk("builtin", name)
        if self.func.parent is not None or getattr(self.func, "name", "") == "<module>":
            return tm.mk("closure", name)
        self.site("unresolved", node, name=name)
        return tm.unk("name:" + name)

    def ev_index(self, sl, env):
        if isinstance(sl, ast.Slice):
            lo = self.ev(sl.lower, env) if sl.lower is not None else tm.none()
            hi = self.ev(sl.upper, env) if sl.upper is not None else tm.none()
            step = self.ev(sl.step, env) if sl.step is not None else tm.none()
            return tm.mk("slice", lo, hi, step)
        if isinstance(sl, ast.Tuple):
            return tm.tup(tuple(self.ev_index(e, env) for e in sl.elts))
        return self.ev(sl, env)

    def ev(self, node, env):
        if node is None:
            return tm.none()
        m = getattr(self, "ev_" + type(node).__name__, None)
        if m is None:
            raise AnalysisError("SYMEVAL", "unsupported expression %s at %s" % (type(node).__name__, self.func.loc(node)))
        return m(node, env)

    def ev_Constant(self, node, env):
        return tm.const(node.value)

    def ev_NamedExpr(self, node, env):
        # (name := value): binds the name in the enclosing scope and yields the value
        v = self.ev(node.value, env)
        self.assign(node.target, v, env, node)
        return v

    def ev_Name(self, node, env):
        return self.lookup(node.id, env, node)

    def _new_table(self, modname, name):
        """A module-level name that is not in the reference inventory and is bound to a tuple / list / dict display
        (a table a maintainer introduced): its uses read the display itself."""
        if self.func is None:
            return None
        env = self.S._modenv.get(modname)
        if not env:
            return None
        t = env.get(name)
        ok = False
        if t is not None and t.op == "tuple" and name not in _rebound_globals(self.P.modules[modname]):
            ok = True  # a tuple cannot be changed in place, wherever it travels
        if t is not None and t.op in ("list", "dict", "set") and name not in _mutated_globals(self.P.modules[modname]):
            ok = True
        if t is not None and t.op == "call" and tm.callee_name(t.a[0]) == "functools.partial" and name not in _rebound_globals(self.P.modules[modname]):
            ok = True  # a partial application bound once at module level is the function it abbreviates
        if t is not None and t.op == "lambda" and name not in _rebound_globals(self.P.modules[modname]):
            ok = True
        if not ok:
            return None
        # read the display as a function body would: names of the reference inventory stay named (glob / func terms)
        mod = self.P.modules[modname]
        node = mod.const_nodes.get(name)
        depth = getattr(self, "_table_depth", 0)
        if node is None or depth > 4:
            return t
        saved_module, saved_closure, saved_pc, n_sites = self.module, self.closure, self.pc, len(self.summary.sites)
        self.module, self.closure, self._table_depth = mod, {}, depth + 1
        try:
            t2 = self.ev(node, {})
        except AnalysisError:
            t2 = None
        finally:
            self.module, self.closure, self.pc, self._table_depth = saved_module, saved_closure, saved_pc, depth
            del self.summary.sites[n_sites:]
        return t2 if t2 is not None and t2.op == t.op else t

    def ev_Attribute(self, node, env):
        base = self.ev(node.value, env)
        return self.attr_of(base, node.attr, node)

    def attr_of(self, base, name, node):
        if base.op == "mod":
            q = base.a[0]
            if q.startswith("ext:"):
                dotted = q[4:] + "." + name
                return tm.ext(dotted)
            m = self.P.modules.get(q)
            if m is not None:
                if name in m.funcs:
                    return tm.func("%s.%s" % (q, name))
                if name in m.const_nodes:
                    qq = "%s.%s" % (q, name)
                    if qq not in KNOWN_GLOBALS:
                        v = _literal_of_node(m.const_nodes[name])
                        if v is not _NOLIT:
                            return tm.const(v)
                        t = self._new_table(q, name)
                        if t is not None:
                            return t
                    return tm.glob(qq)
                if name in m.classes:
                    return tm.mk("class", "%s.%s" % (q, name))
                r = self.P.resolve_import(m, name)
                if r is not None and r[0] in ("extmod",):
                    return tm.mk("mod", "ext:" + r[1])
                self.site("unresolved", node, name="%s.%s" % (q, name))
                return tm.unk("attr:%s.%s" % (q, name))
        if base.op == "ext":
            return tm.ext(base.a[0] + "." + name)
        # field of a private namedtuple: the component at the field's position
        classes, fields = _namedtuples(self.P)
        idx = fields.get(name)
        if idx is not None and len(idx) == 1 and name not in _ARRAY_ATTRS:
            k = next(iter(idx))
            if base.op == "tuple" and k < len(base.a) and not any(z.op == "star" for z in base.a):
                return base.a[k]
            if base.op == "sub" and base.a[0].op == "comp" and base.a[0].a[1].op == "tuple":
                return tm.sub(base, tm.const(k))
            if self._tuple_parts(base) is not None or base.op in ("ite", "iter") or (base.op == "call" and base.a[0].op in ("func", "localfunc")):
                return tm.proj(base, k) if base.op != "ite" else tm.sub(base, tm.const(k))
        return tm.attr(base, name)

    def ev_Subscript(self, node, env):
        base = self.ev(node.value, env)
        idx = self.ev_index(node.slice, env)
        t = tm.sub(base, idx)
        if t.op == "sub" and t.a[0] is base:
            idx = t.a[1]  # the index in its canonical spelling (x[slice(a, b)] is x[a:b])
        self.site("subscript", node, base=base, index=idx, term=t)
        return t

    def _tuple_parts(self, t):
        """components of a value that is certainly a tuple of known length: a tuple display, or a call of a repo
        function all of whose returns are tuple displays of one length; else None"""
        if t.op == "tuple":
            return list(t.a)
        rows = self._array_rows(t)
        if rows is not None:
            return rows
        if t.op == "call" and t.a[0].op == "func" and self.P.has_func(t.a[0].a[0]):
            g = self.P.func(t.a[0].a[0])
            lens = set()
            for n in ast.walk(g.node):
                if isinstance(n, ast.Return):
                    if isinstance(n.value, ast.Tuple) and not any(isinstance(e, ast.Starred) for e in n.value.elts):
                        lens.add(len(n.value.elts))
                    else:
                        return None
                elif isinstance(n, (ast.Yield, ast.YieldFrom)):
                    return None
            if len(lens) == 1:
                return [tm.proj(t, i) for i in range(lens.pop())]
        return None

    def _concat(self, op, l, r):
        """tuple + tuple with known lengths is the tuple of all components"""
        if op != "+":
            return None
        if l.op != "tuple" and r.op != "tuple":
            return None
        pl, pr = self._tuple_parts(l), self._tuple_parts(r)
        if pl is None or pr is None:
            return None
        return tm.tup(pl + pr)

    def ev_BinOp(self, node, env):
        l = self.ev(node.left, env)
        r = self.ev(node.right, env)
        op = BINOPS[type(node.op)]
        cc = self._concat(op, l, r)
        if cc is not None:
            return cc
        t = tm.binop(op, l, r)
        if op in ("/", "//", "%"):
            self.site("div", node, num=l, den=r, op=op, term=t)
        return t

    def ev_UnaryOp(self, node, env):
        return tm.unop(UNOPS[type(node.op)], self.ev(node.operand, env))

    def ev_BoolOp(self, node, env):
        op = "and" if isinstance(node.op, ast.And) else "or"
        # short-circuit: later operands run under the earlier ones' truth
        saved = self.pc
        items = []
        for v in node.values:
            t = self.ev(v, env)
            items.append(t)
            self.pc = self.pc + (("if", t, op == "and", None),)
        self.pc = saved
        return tm.boolop(op, items)

    def ev_Compare(self, node, env):
        left = self.ev(node.left, env)
        parts = []
        for op, rn in zip(node.ops, node.comparators):
            right = self.ev(rn, env)
            o = CMPOPS[type(op)]
            if o in ("in", "notin"):
                self._note_gen_iteration(rn, right)  # `x in gen` traverses (consumes) the generator
            t = tm.cmp(o, left, right)
            self.site("cmp", node, op=o, left=left, right=right, term=t)
            parts.append(t)
            left = right
        if len(parts) == 1:
            return parts[0]
        return tm.boolop("and", parts)

    def ev_IfExp(self, node, env):
        c = self.ev(node.test, env)
        saved = self.pc
        self.pc = saved + (("if", c, True, None),)
        a = self.ev(node.body, env)
        self.pc = saved + (("if", c, False, None),)
        b = self.ev(node.orelse, env)
        self.pc = saved
        return tm.ite(c, a, b)

    def ev_Tuple(self, node, env):
        return tm.tup(tuple(self._elt(e, env) for e in node.elts))

    def ev_List(self, node, env):
        return tm.lst(tuple(self._elt(e, env) for e in node.elts))

    def ev_Set(self, node, env):
        return tm.mk("set", *tuple(self._elt(e, env) for e in node.elts))

    def _elt(self, e, env):
        if isinstance(e, ast.Starred):
            return tm.mk("star", self.ev(e.value, env))
        return self.ev(e, env)

    def ev_Dict(self, node, env):
        if node.keys and node.keys[0] is None and all(k is not None for k in node.keys[1:]):
            # {**d, k1: v1, ...}: a per-call copy of d with k1 ... set afterwards - dict(d) followed by the stores
            cur = tm.call(tm.mk("builtin", "dict"), (self.ev(node.values[0], env),))
            for k, v in zip(node.keys[1:], node.values[1:]):
                cur = tm.upd(cur, "setitem", self.ev(k, env), self.ev(v, env))
            return cur
        items = []
        for k, v in zip(node.keys, node.values):
            items.append(tm.tup((self.ev(k, env) if k is not None else tm.mk("star", tm.none()), self.ev(v, env))))
        return tm.mk("dict", *items)

    def ev_Starred(self, node, env):
        return tm.mk("star", self.ev(node.value, env))

    def ev_JoinedStr(self, node, env):
        parts = []
        for v in node.values:
            if isinstance(v, ast.FormattedValue):
                parts.append(self.ev(v.value, env))
            else:
                parts.append(self.ev(v, env))
        if parts and all(p_.op == "const" and isinstance(p_.a[0], (str, float, int)) and not isinstance(p_.a[0], bool) for p_ in parts) and not any(isinstance(v, ast.FormattedValue) and (v.format_spec is not None or v.conversion != -1) for v in node.values):
            # every hole holds a constant (a literal, an unrolled loop value): the text itself.  Whole numbers are spelled
            # without a fraction digit here ("@3" for 3 and for 3.0): consumers compare number-insensitively
            return tm.const("".join(p_.a[0] if isinstance(p_.a[0], str) else ("%d" % p_.a[0] if float(p_.a[0]).is_integer() else repr(float(p_.a[0]))) for p_ in parts))
        return tm.mk("fstr", *parts)

    def ev_FormattedValue(self, node, env):
        return self.ev(node.value, env)

    def ev_Lambda(self, node, env):
        inner = dict(env)
        for a in node.args.args:
            inner[a.arg] = tm.mk("lparam", a.arg)
        body = self.ev(node.body, inner)
        return tm.mk("lambda", tuple(a.arg for a in node.args.args), body)

    def ev_Yield(self, node, env):
        t = self.ev(node.value, env) if node.value is not None else tm.none()
        self.site("yield", node, term=t)
        return tm.mk("yield", t)

    def ev_Slice(self, node, env):
        return self.ev_index(node, env)

    def _comp(self, kind, node, elts, env):
        self.ncomps += 1
        cid = "C%d" % self.ncomps
        inner = dict(env)
        iters = []
        conds = []
        saved = self.pc
        for g in node.generators:
            it = self.ev(g.iter, inner)
            self._note_gen_iteration(g.iter, it)
            while it.op == "call" and tm.callee_name(it.a[0]) in ("builtins.list", "builtins.tuple", ".tolist") and len(it.a[1]) == 1 and not it.a[2]:
                it = it.a[1][0]
            iters.append(it)
            self.pc = self.pc + (("loop", cid, it),)
            self.bind_iter(g.target, g.iter, it, cid, inner, node)
            for c in g.ifs:
                ct = self.ev(c, inner)
                conds.append(ct)
                self.pc = self.pc + (("if", ct, True, None),)
        if UNROLL and len(node.generators) == 1 and not node.generators[0].ifs and kind in ("list", "gen", "set") and len(elts) == 1:
            elems = self._unroll_elements(iters[0])
            if elems is not None:
                # a comprehension over a literal collection is the display of its elements
                self.pc = saved
                out = []
                for e in elems:
                    env2 = dict(env)
                    self.assign(node.generators[0].target, e, env2, node)
                    out.append(self.ev(elts[0], env2))
                return tm.lst(out) if kind in ("list", "gen") else tm.mk("set", *out)
        vals = tuple(self.ev(e, inner) for e in elts)
        self.pc = saved
        if kind in ("list", "gen") and len(iters) == 1 and len(vals) == 1 and iters[0].op == "comp" and iters[0].a[0] in ("list", "gen") and len(iters[0].a[2]) == 1:
            # map fusion: [E(p) for p in [F(x) for x in T]] is [E(F(x)) for x in T]
            inner = iters[0]
            el = tm.mk("iter", inner, cid)
            fused_elt = tm.rebuild(vals[0], lambda z: inner.a[1] if z is el else None)
            fused_conds = tuple(inner.a[3]) + tuple(tm.rebuild(c, lambda z: inner.a[1] if z is el else None) for c in conds)
            if not any(z is el for z in tm.walk(fused_elt)):
                return tm.mk("comp", kind, fused_elt, inner.a[2], fused_conds, inner.a[4])
        if kind == "list" and len(iters) == 1 and not conds and len(vals) == 1:
            # [x for x in it] / [(a, b) for a, b in it] is list(it)
            el = tm.mk("iter", iters[0], cid)
            v = vals[0]
            ident = v is el or (v.op == "tuple" and len(v.a) >= 2 and all(z is tm.proj(el, i) for i, z in enumerate(v.a)))
            if not ident and v.op == "tuple" and iters[0].op == "call" and tm.callee_name(iters[0].a[0]) == "builtins.zip" and len(iters[0].a[1]) == len(v.a) and not any(z.op == "star" for z in iters[0].a[1]):
                ident = all(z is tm.mk("iter", za, cid) for z, za in zip(v.a, iters[0].a[1]))
            if ident:
                return tm.call(tm.mk("builtin", "list"), (iters[0],))
        return tm.mk("comp", kind, vals[0] if len(vals) == 1 else tm.tup(vals), tuple(iters), tuple(conds), cid)

    def ev_ListComp(self, node, env):
        return self._comp("list", node, [node.elt], env)

    def ev_SetComp(self, node, env):
        return self._comp("set", node, [node.elt], env)

    def ev_GeneratorExp(self, node, env):
        return self._comp("gen", node, [node.elt], env)

    def ev_DictComp(self, node, env):
        return self._comp("dict", node, [node.key, node.value], env)

    def _debound(self, node, env):
        """f(args) where f is an alias of `obj.method` taken earlier: the call obj.method(args)"""
        if isinstance(node, ast.Call) and isinstance(node.func, ast.Name) and node.func.id in env and env[node.func.id].op == "boundmeth":
            cache = self.__dict__.setdefault("_debound_cache", {})
            new = cache.get(id(node))
            if new is None:
                b = env[node.func.id]
                if b.a[0] not in env:
                    return node
                func = ast.copy_location(ast.Attribute(value=ast.copy_location(ast.Name(id=b.a[0], ctx=ast.Load()), node.func), attr=b.a[1], ctx=ast.Load()), node.func)
                new = ast.copy_location(ast.Call(func=func, args=node.args, keywords=node.keywords), node)
                cache[id(node)] = new
                cache[id(new)] = new
            return new
        return node

    def _split_conditional_kwargs(self, node, env):
        """f(.., **(D1 if c else D2)) with two dict displays of literal keys (one may be empty): the two calls
        f(.., k1=v1, ..) / f(.., <D2's keywords>) under c / not c.  Returns the term, or None when the call is not of
        that shape."""
        stars = [k for k in node.keywords if k.arg is None]
        if len(stars) != 1:
            return None
        v = stars[0].value
        t = self.ev(v, env) if isinstance(v, (ast.Name, ast.IfExp)) else None
        if t is None or t.op != "ite":
            return None
        alts = (t.a[1], t.a[2])
        if not all(z.op == "dict" and all(kv.op == "tuple" and len(kv.a) == 2 and kv.a[0].op == "const" and isinstance(kv.a[0].a[0], str) and kv.a[0].a[0].isidentifier() for kv in z.a) for z in alts):
            return None
        self._n_kwsplit = getattr(self, "_n_kwsplit", 0) + 1
        out = []
        saved = self.pc
        for pol, z in ((True, alts[0]), (False, alts[1])):
            kws = [k for k in node.keywords if k.arg is not None]
            env2 = dict(env)
            for j, kv in enumerate(z.a):
                nm = "@kwsplit%d_%d_%d" % (self._n_kwsplit, int(pol), j)
                env2[nm] = kv.a[1]
                kws.append(ast.copy_location(ast.keyword(arg=kv.a[0].a[0], value=ast.copy_location(ast.Name(id=nm, ctx=ast.Load()), node)), node))
            call = ast.copy_location(ast.Call(func=node.func, args=node.args, keywords=kws), node)
            self.pc = saved + (("if", t.a[0], pol, None),)
            out.append(self.ev_Call(call, env2))
        self.pc = saved
        return tm.ite(t.a[0], out[0], out[1])

    def ev_Call(self, node, env):
        node = self._debound(node, env)
        if any(k.arg is None for k in node.keywords):
            sp = self._split_conditional_kwargs(node, env)
            if sp is not None:
                return sp
        fn = self.ev(node.func, env) if not isinstance(node.func, ast.Attribute) else None
        base = None
        if fn is None:
            base = self.ev(node.func.value, env)
            a = self.attr_of(base, node.func.attr, node.func)
            if a.op in ("func", "ext", "glob", "class", "unk", "mod"):
                fn = a
                base = None
        args = []
        for a_ in node.args:
            if isinstance(a_, ast.Starred):
                sv = self.ev(a_.value, env)
                parts_ = None
                if sv.op in ("tuple", "list") and len(sv.a) <= 16:
                    args.extend(sv.a)  # f(*(a, b)) is f(a, b)
                elif sv.op == "call" and sv.a[0].op in ("func", "localfunc") and self._tuple_parts(sv) is not None:
                    args.extend(self._tuple_parts(sv))  # f(*g(x)) with g returning an n-tuple is f(g(x)[0], ..., g(x)[n-1])
                else:
                    args.append(tm.mk("star", sv))
            else:
                args.append(self.ev(a_, env))
        kw = []
        for k in node.keywords:
            v = self.ev(k.value, env)
            kw.append((k.arg if k.arg is not None else "**", v))
        args = tuple(args)
        kw = tuple(kw)
        while fn is not None and fn.op == "call" and tm.callee_name(fn.a[0]) == "functools.partial" and fn.a[1] and not any(z.op == "star" for z in fn.a[1]):
            # functools.partial(f, a, k=v)(b) is f(a, b, k=v)
            later = {k_ for k_, _ in kw}
            args = tuple(fn.a[1][1:]) + args
            kw = tuple((k_, v_) for k_, v_ in fn.a[2] if k_ not in later) + kw
            fn = fn.a[1][0]
        via_filter = False
        if fn is not None and fn.op == "func" and fn.a[0] == "util.filter_kwargs" and args and args[0].op in ("func", "localfunc", "ext", "param", "ite"):
            via_filter = True
            fn = args[0]
            args = args[1:]
        args, kw = self.canonical_args(fn, args, kw)
        nt_fields = None
        if fn is not None and fn.op == "glob" and fn.a[0] in _namedtuples(self.P)[0]:
            nt_fields = _namedtuples(self.P)[0][fn.a[0]]
        elif fn is not None and fn.op == "call" and tm.callee_name(fn.a[0]) in ("collections.namedtuple", "namedtuple") and len(fn.a[1]) == 2:
            # (module level: the class object itself is the value of the name)
            f2 = fn.a[1][1]
            if f2.op in ("list", "tuple") and all(z.op == "const" and isinstance(z.a[0], str) for z in f2.a):
                nt_fields = [z.a[0] for z in f2.a]
            elif f2.op == "const" and isinstance(f2.a[0], str):
                nt_fields = f2.a[0].replace(",", " ").split()
        if nt_fields is not None and not any(a_.op == "star" for a_ in args) and not any(k_ == "**" for k_, _ in kw):
            # _Result(a, b) / _Result(x=a, y=b) of a private namedtuple is the tuple (a, b)
            fl = nt_fields
            vals = dict(zip(fl, args))
            vals.update({k_: v_ for k_, v_ in kw})
            if len(args) <= len(fl) and set(vals) == set(fl):
                return tm.tup([vals[f_] for f_ in fl])
        if fn is not None and tm.callee_name(fn) == "itertools.starmap" and len(args) == 2 and not kw and args[0].op in ("builtin", "func", "localfunc", "ext") and args[1].op == "call" and tm.callee_name(args[1].a[0]) == "builtins.zip" and not args[1].a[2] and not any(z.op == "star" for z in args[1].a[1]):
            # itertools.starmap(f, zip(a, b)) is (f(x, y) for x, y in zip(a, b))
            self.ncomps += 1
            cid = "C%d" % self.ncomps
            it = args[1]
            el = tuple(tm.mk("iter", z, cid) for z in it.a[1])
            saved_ = self.pc
            self.pc = saved_ + (("loop", cid, it),)
            et_ = self.apply(args[0], el, ())
            self.site("call", node, callee=tm.callee_name(args[0]), fn=args[0], base=None, args=el, kw=(), term=et_, via_filter=False, method=None)
            self.pc = saved_
            return tm.mk("comp", "gen", et_, (it,), (), cid)
        if fn is not None and tm.callee_name(fn) == "builtins.map" and len(args) == 2 and not kw and args[0].op in ("builtin", "func", "localfunc", "ext"):
            # map(f, it) is (f(x) for x in it)
            self.ncomps += 1
            cid = "C%d" % self.ncomps
            it = args[1]
            while it.op == "call" and tm.callee_name(it.a[0]) in ("builtins.list", "builtins.tuple", ".tolist") and len(it.a[1]) == 1 and not it.a[2]:
                it = it.a[1][0]
            saved_ = self.pc
            self.pc = saved_ + (("loop", cid, it),)
            et_ = self.apply(args[0], (tm.mk("iter", it, cid),), ())
            if args[0].op in ("func", "localfunc"):
                self.site("call", node, callee=tm.callee_name(args[0]), fn=args[0], base=None, args=(tm.mk("iter", it, cid),), kw=(), term=et_, via_filter=False, method=None)
            self.pc = saved_
            return tm.mk("comp", "gen", et_, (it,), (), cid)
        if base is not None and node.func.attr == "format" and base.op == "const" and isinstance(base.a[0], str) and not kw and args and all(a_.op == "const" and isinstance(a_.a[0], str) for a_ in args):
            try:
                return tm.const(base.a[0].format(*[a_.a[0] for a_ in args]))
            except Exception:
                pass
        if base is not None and node.func.attr == "update" and len(args) == 1 and not kw and isinstance(node.func.value, ast.Name) and node.func.value.id in env:
            z = args[0]
            if z.op == "call" and tm.callee_name(z.a[0]) == "builtins.zip" and len(z.a[1]) == 2 and not z.a[2] and z.a[1][0].op in ("tuple", "list") and z.a[1][0].a and all(k.op == "const" and isinstance(k.a[0], str) for k in z.a[1][0].a):
                # d.update(zip((k1, ..., kn), V)) is d[k1] = V[0]; ...; d[kn] = V[n-1]
                K, V = z.a[1]
                if not (V.op in ("tuple", "list") and len(V.a) != len(K.a)):
                    root = node.func.value.id
                    for i, k in enumerate(K.a):
                        v = V.a[i] if V.op in ("tuple", "list") else tm.proj(V, i)
                        cur = env[root]
                        ms = self.site("mutate", node, how="setitem", old=cur, root=root, key=k, val=v, target=node.func.value)
                        env[root] = tm.upd(cur, "setitem", k, v)
                        ms.d["new"] = env[root]
                        ms.d["applied"] = True
                    return tm.none()
        if base is not None and node.func.attr == "update" and isinstance(node.func.value, ast.Name) and node.func.value.id in env and not any(k_ == "**" for k_, _ in kw):
            # d.update({k1: v1, ...}) / d.update(k1=v1, ...) is d[k1] = v1; ...   (an empty display changes nothing)
            pairs = None
            if len(args) == 1 and args[0].op == "dict" and all(kv.op == "tuple" and len(kv.a) == 2 and kv.a[0].op == "const" for kv in args[0].a):
                pairs = [(kv.a[0], kv.a[1]) for kv in args[0].a]
            elif not args:
                pairs = []
            if pairs is not None:
                pairs = pairs + [(tm.const(k_), v_) for k_, v_ in kw]
                root = node.func.value.id
                for k, v in pairs:
                    cur = env[root]
                    ms = self.site("mutate", node, how="setitem", old=cur, root=root, key=k, val=v, target=node.func.value)
                    env[root] = tm.upd(cur, "setitem", k, v)
                    ms.d["new"] = env[root]
                    ms.d["applied"] = True
                if not pairs:
                    self.__dict__.setdefault("_noop_calls", set()).add(id(node))
                return tm.none()
        if base is not None and node.func.attr == "count" and len(args) == 1 and not kw and tm.is_const(args[0], True) and base.op == "comp" and base.a[0] == "list" and _boolean_valued_term(base.a[1]):
            # [b(x) for x in it].count(True) with Boolean b is sum(b(x) for x in it)
            return tm.call(tm.mk("builtin", "sum"), (tm.mk("comp", "gen", base.a[1], base.a[2], base.a[3], base.a[4]),))
        if base is not None:
            mname = node.func.attr
            t = tm.method_call(base, mname, args, kw)
            callee = "." + mname
            self.site("call", node, callee=callee, fn=None, base=base, args=args, kw=kw, term=t, via_filter=False, method=mname)
            if mname in MUTATOR_METHODS and not _is_module_term(base):
                ms = self.site("mutate", node, how="method:" + mname, old=base, root=_root_name(node.func.value), key=tm.none(), val=tm.tup(args), target=node.func.value)
                if mname == "setdefault" and isinstance(node.func.value, ast.Name) and node.func.value.id in env and len(args) == 2 and not kw:
                    # d.setdefault(k, v) used as an expression: the dict is updated here and the value is d[k]
                    root = node.func.value.id
                    env[root] = tm.upd(env[root], "method:setdefault", tm.none(), tm.tup(args))
                    ms.d["new"] = env[root]
                    ms.d["applied"] = True
                    return tm.sub(env[root], args[0])
            return t
        dist = self.distribute_ite(fn, args, kw, node, via_filter) if self._wants_distribution(fn, args, kw) else None
        if dist is not None:
            return dist
        inl = self.try_inline(fn, args, kw, node, caller_env=env)
        if inl is not None:
            return inl
        built = self._dict_of_zip(fn, args, kw, node)
        if built is not None:
            return built
        t = self.apply(fn, args, kw)
        callee = tm.callee_name(fn)
        if fn is not None and fn.op == "ext" and t.op == "call" and t.a[0].op == "ext" and tm.callee_name(t.a[0]) != callee and not via_filter:
            # a library call that the term algebra spells differently (np.concatenate((np.atleast_2d(r), A), axis=0) is
            # np.vstack((r, A)); np.add.reduce(x) is np.sum(x)) is recorded under its canonical spelling
            self.site("call", node, callee=tm.callee_name(t.a[0]), fn=t.a[0], base=None, args=tuple(t.a[1]), kw=tuple(t.a[2]), term=t, via_filter=False, method=None)
        else:
            self.site("call", node, callee=callee, fn=fn, base=None, args=args, kw=kw, term=t, via_filter=via_filter, method=None)
        # in-place library calls
        outt = None
        for k_, v_ in kw:
            if k_ == "out":
                outt = v_
        if outt is None and callee in UFUNC_OUT3 and len(args) == 3:
            outt = args[2]
        if outt is None and callee in UFUNC_OUT2 and len(args) == 2 and callee != "np.round" and callee != "np.clip":
            outt = args[1]
        if outt is None and callee in INPLACE_FIRSTARG and args:
            outt = args[0]
        if outt is None and callee == "np.nan_to_num":
            for k_, v_ in kw:
                if k_ == "copy" and tm.is_const(v_, False) and args:
                    outt = args[0]
        if outt is None:
            # SciPy's overwrite_a=True / overwrite_b=True / overwrite_x=True: the routine may destroy that argument
            pos = {"overwrite_a": 0, "overwrite_x": 0, "overwrite_input": 0, "overwrite_data": 0, "overwrite_b": 1, "overwrite_ab": 0}
            for k_, v_ in kw:
                if k_ in pos and tm.is_const(v_, True) and len(args) > pos[k_]:
                    outt = args[pos[k_]]
        if outt is not None and outt.op != "const":
            self.site("mutate", node, how="out:" + str(callee), old=outt, root=None, key=tm.none(), val=t, target=None)
            kw_wo = tuple((k_, v_) for k_, v_ in kw if k_ != "out")
            if len(kw_wo) != len(kw):
                # np.add(a, b, out=a) is a += b: the value is that of the call without out=, and the variable named by
                # out= holds it afterwards
                t = self.apply(fn, args, kw_wo)
                for k_ in getattr(node, "keywords", []):
                    if k_.arg == "out" and isinstance(k_.value, ast.Name) and k_.value.id in env:
                        env[k_.value.id] = t
        return t

    def canonical_args(self, fn, args, kw):
        """f(a, b, w) and f(a, b, window=w) are the same call: keyword arguments of a repo callee are moved to their
        positional slots as long as the slots are contiguous (no star arguments, no gap)."""
        if fn is None or fn.op not in ("func", "localfunc"):
            return args, kw
        q = fn.a[0]
        if not self.P.has_func(q) or any(a.op == "star" for a in args):
            return args, kw
        g = self.P.func(q)
        params = list(g.params)
        kwd = dict((k, v) for k, v in kw if k != "**")
        if len(kwd) != len([k for k, _ in kw if k != "**"]):
            return args, kw
        args = list(args)
        while len(args) < len(params) and params[len(args)] in kwd:
            args.append(kwd.pop(params[len(args)]))
        rest = tuple((k, v) for k, v in kw if k == "**" or k in kwd)
        # an argument that spells out the callee's own literal default is no argument
        rest = tuple((k, v) for k, v in rest if not (k != "**" and self._is_default(g, k, v)))
        if not rest:
            while args and len(args) <= len(params) and self._is_default(g, params[len(args) - 1], args[-1]):
                args.pop()
        return tuple(args), rest

    def _is_default(self, g, pname, v):
        if pname not in g.defaults or v.op != "const":
            return False
        okd, dv = g.default_value(pname)
        return okd and type(dv) is type(v.a[0]) and dv == v.a[0] if not isinstance(dv, (int, float)) or isinstance(dv, bool) else (okd and v.op == "const" and isinstance(v.a[0], (int, float)) and not isinstance(v.a[0], bool) and float(dv) == float(v.a[0]))

    def _wants_distribution(self, fn, args, kw):
        """only where a *callable* is chosen conditionally (distance=f if flag else None): the two alternatives are
        different algorithms, which the rules tell apart by the callee's arguments"""
        for v in list(args) + [v for k, v in kw if k != "**"]:
            if v.op == "ite" and any(z.op in ("func", "localfunc") for z in (v.a[1], v.a[2])):
                return True
        return False

    def distribute_ite(self, fn, args, kw, node, via_filter):
        """f(a, x if c else y) is (f(a, x) if c else f(a, y)): a repo call with exactly one conditional argument is
        recorded as the two calls it stands for, each under its own branch condition."""
        if fn is None or fn.op != "func" or not self.P.has_func(fn.a[0]):
            return None
        slots = [("a", i) for i, a in enumerate(args) if a.op == "ite"] + [("k", i) for i, (k, v) in enumerate(kw) if k != "**" and v.op == "ite"]
        if len(slots) != 1:
            return None
        kind, i = slots[0]
        it = args[i] if kind == "a" else kw[i][1]
        c = it.a[0]
        if any(x.op in ("loopvar",) for x in tm.walk(c)) and False:
            return None
        out = []
        saved = self.pc
        for pol, alt in ((True, it.a[1]), (False, it.a[2])):
            a2 = list(args)
            k2 = list(kw)
            if kind == "a":
                a2[i] = alt
            else:
                k2[i] = (kw[i][0], alt)
            a2, k2 = self.canonical_args(fn, tuple(a2), tuple(k2))
            self.pc = saved + (("if", c, pol, None),)
            inl = self.try_inline(fn, a2, k2, node)
            if inl is not None:
                out.append(inl)
            else:
                t = self.apply(fn, a2, k2)
                self.site("call", node, callee=tm.callee_name(fn), fn=fn, base=None, args=a2, kw=k2, term=t, via_filter=via_filter, method=None)
                out.append(t)
        self.pc = saved
        return tm.ite(c, out[0], out[1])

    def _dict_of_zip(self, fn, args, kw, node):
        """OrderedDict(zip((k1, ..., kn), V)) / dict(zip(...)) with literal string keys is the container filled by
        d[k1] = V[0]; ...; d[kn] = V[n-1]: the same stores are recorded, on an anonymous container."""
        name = tm.callee_name(fn) if fn is not None else None
        if name not in ("collections.OrderedDict", "builtins.dict") or len(args) != 1 or kw:
            return None
        z = args[0]
        pairs = None
        if z.op in ("list", "tuple") and z.a and all(p_.op == "tuple" and len(p_.a) == 2 and p_.a[0].op == "const" and isinstance(p_.a[0].a[0], str) for p_ in z.a):
            pairs = [(p_.a[0], p_.a[1]) for p_ in z.a]  # OrderedDict([(k1, v1), ...]) - a display, or an unrolled generator
        elif z.op == "dict" and z.a and all(kv.op == "tuple" and len(kv.a) == 2 and kv.a[0].op == "const" and isinstance(kv.a[0].a[0], str) for kv in z.a):
            pairs = [(kv.a[0], kv.a[1]) for kv in z.a]  # OrderedDict({k1: v1, ...})
        if pairs is not None:
            self.n_anon = getattr(self, "n_anon", 0) + 1
            root = "@dict%d" % self.n_anon
            cur = self.apply(fn, (), ())
            self.site("call", node, callee=name, fn=fn, base=None, args=(), kw=(), term=cur, via_filter=False, method=None)
            for k, v in pairs:
                ms = self.site("mutate", node, how="setitem", old=cur, root=root, key=k, val=v, target=None)
                cur = tm.upd(cur, "setitem", k, v)
                ms.d["new"] = cur
            return cur
        if not (z.op == "call" and tm.callee_name(z.a[0]) == "builtins.zip" and len(z.a[1]) == 2 and not z.a[2]):
            return None
        K, V = z.a[1]
        if K.op not in ("tuple", "list") or not K.a or not all(k.op == "const" and isinstance(k.a[0], str) for k in K.a):
            return None
        if V.op in ("tuple", "list") and len(V.a) != len(K.a):
            return None
        self.n_anon = getattr(self, "n_anon", 0) + 1
        root = "@dict%d" % self.n_anon
        cur = self.apply(fn, (), ())
        self.site("call", node, callee=name, fn=fn, base=None, args=(), kw=(), term=cur, via_filter=False, method=None)
        for i, k in enumerate(K.a):
            v = V.a[i] if V.op in ("tuple", "list") else tm.proj(V, i)
            ms = self.site("mutate", node, how="setitem", old=cur, root=root, key=k, val=v, target=None)
            cur = tm.upd(cur, "setitem", k, v)
            ms.d["new"] = cur
        return cur

    def try_inline(self, fn, args, kw, node, caller_env=None):
        """A call of a repo function that is not part of the reference inventory (a helper introduced after the
        rules were written) is evaluated in place: its statements are walked in the caller's context, so the rules see
        the same sites, terms and path conditions as if the code had never been extracted.  Returns the result term,
        or None when the callee is known / cannot be inlined faithfully (then it stays an opaque call)."""
        if fn is None or fn.op not in ("func", "localfunc"):
            return None
        q = fn.a[0]
        if not self.P.has_func(q):
            return None
        if q in KNOWN_FUNCS and not _resigned(self.P, q):
            return None
        if len(self.inline_frames) >= 3 or any(getattr(fr, "qual", None) == q for fr in self.inline_frames):
            return None
        g = self.P.func(q)
        if g.kwarg or g.nested or any(a.op == "star" for a in args) or any(k == "**" for k, _ in kw):
            return None
        for n in ast.walk(g.node):
            if isinstance(n, (ast.Yield, ast.YieldFrom, ast.Global, ast.Nonlocal, ast.Lambda)):
                return None
            if isinstance(n, ast.Try) and (n.finalbody or any(isinstance(x, ast.Return) for x in ast.walk(n))):
                return None  # a return that leaves through a handler / finally clause is not an in-place exit
        names = list(g.params) + list(getattr(g, "kwonly", []))
        env = {}
        for i, a in enumerate(args):
            if i >= len(g.params):
                if g.vararg:
                    break
                return None
            env[g.params[i]] = a
        if g.vararg:
            env[g.vararg] = tm.tup(args[len(g.params):])  # *rest receives the surplus positional arguments as a tuple
        for k, v in kw:
            if k not in names or k in env:
                return None
            env[k] = v
        for pn in names:
            if pn not in env:
                if pn not in g.defaults:
                    return None
                okd, dv = g.default_value(pn)
                if not okd:
                    return None
                env[pn] = tm.const(dv)
        saved_module, saved_closure = self.module, self.closure
        saved_pc = self.pc
        fr = _InlineFrame(len(self.pc))
        fr.qual = q
        fr.loop_depth = len(self.loopstack)
        self.inline_frames.append(fr)
        self.module = g.module
        self.closure = {}
        if fn.op == "localfunc":
            # a nested helper sees the enclosing function's names as they were at its definition
            self.closure = dict(self.summary.def_envs.get(g.name, {}))
            self.closure.update(saved_closure or {})
        n_sites = len(self.summary.sites)
        try:
            out = self.run_keep_pc(g.node.body, env)
            end_pc = self.pc
        finally:
            self.inline_frames.pop()
            self.module, self.closure = saved_module, saved_closure
        rets = list(fr.returns)
        ret_envs = list(fr.return_envs)
        if out is not None:
            rets.append((tm.none(), end_pc))
            ret_envs.append(out)
        if fr.failed or not rets:
            # give up: forget what the walk recorded and treat the call as opaque
            del self.summary.sites[n_sites:]
            self.pc = saved_pc
            return None

        def rel_cond(pc):
            cs = []
            for it in pc[fr.base_len:]:
                if it[0] == "if" and it[3] is None:
                    cs.append(it[1] if it[2] else tm.unop("not", it[1]))
                elif it[0] == "if" and it[3] in ("return", "mixed"):
                    continue
                elif it[0] == "if":
                    continue
                elif it[0] in ("loop", "try", "except"):
                    return None
            return cs

        result = rets[-1][0]
        conds_of = []
        for t_, pc_ in reversed(rets[:-1]):
            cs = rel_cond(pc_)
            if cs is None:
                del self.summary.sites[n_sites:]
                self.pc = saved_pc
                return None
            conds_of.append(cs)
            if not cs:
                result = t_
                continue
            c = cs[0] if len(cs) == 1 else tm.boolop("and", cs)
            result = tm.ite(c, t_, result)
        # in-place effects of the helper on its arguments (lst.append(...), a[i] = ...) are effects on the caller's
        # variables: a plain-name argument is re-bound to what the parameter holds at the helper's exits
        if caller_env is not None and isinstance(node, ast.Call) and len(ret_envs) == len(rets):
            bound = []
            for i, an in enumerate(node.args[: len(g.params)]):
                if isinstance(an, ast.Name):
                    bound.append((g.params[i], an.id, args[i] if i < len(args) else None))
            for k in node.keywords:
                if k.arg in names and isinstance(k.value, ast.Name):
                    bound.append((k.arg, k.value.id, dict(kw).get(k.arg)))
            rebound = {x.id for st_ in g.node.body for x in ast.walk(st_) if isinstance(x, ast.Name) and isinstance(x.ctx, ast.Store)}
            for pn, cname, init in bound:
                if init is None or cname not in caller_env or pn in rebound:
                    continue
                for ms in self.summary.sites[n_sites:]:
                    # the container written through the parameter is the caller's variable
                    if ms.kind == "mutate" and ms.d.get("root") == pn:
                        ms.d["root"] = cname
                finals = [e.get(pn, init) for e in ret_envs]
                if all(f_ is init for f_ in finals):
                    continue
                merged = finals[-1]
                for f_, cs in zip(reversed(finals[:-1]), conds_of):
                    if not cs:
                        merged = f_
                        continue
                    c = cs[0] if len(cs) == 1 else tm.boolop("and", cs)
                    merged = tm.ite(c, f_, merged)
                caller_env[cname] = merged
        # what the caller knows afterwards: the helper did not raise
        keep = tuple(it for it in rets[-1][1][fr.base_len:] if it[0] == "if" and it[3] == "raise")
        self.pc = saved_pc + keep
        self.summary.inlined.append(q)
        for ms in self.summary.sites[n_sites:]:
            ms.d["inlined_from"] = q  # (the outermost helper wins: this assignment runs last for it)
        if result.op == "ite":
            if not hasattr(self, "_inline_results"):
                self._inline_results = set()
            self._inline_results.add(result.id)
        return result

    def apply(self, fn, args, kw):
        if fn.op == "ite":
            return tm.ite(fn.a[0], self.apply(fn.a[1], args, kw), self.apply(fn.a[2], args, kw))
        if fn.op in ("undef", "unk"):
            return tm.unk("call-of-" + fn.op)
        if fn.op == "call" and tm.callee_name(fn.a[0]) == "functools.partial" and fn.a[1] and not any(z.op == "star" for z in fn.a[1]):
            later = {k_ for k_, _ in kw}
            return self.apply(fn.a[1][0], tuple(fn.a[1][1:]) + tuple(args), tuple((k_, v_) for k_, v_ in fn.a[2] if k_ not in later) + tuple(kw))
        if fn.op == "call" and tm.callee_name(fn.a[0]) == "operator.itemgetter" and fn.a[1] and not fn.a[2] and len(args) == 1 and not kw:
            # operator.itemgetter(k1, .., kn)(X) is (X[k1], .., X[kn]) - X[k1] alone for a single key
            keys = []
            for k_ in fn.a[1]:
                if k_.op == "star" and k_.a[0].op in ("tuple", "list"):
                    keys.extend(k_.a[0].a)
                elif k_.op == "star":
                    keys = None
                    break
                else:
                    keys.append(k_)
            if keys:
                items = [tm.sub(args[0], k_) for k_ in keys]
                return items[0] if len(items) == 1 else tm.tup(items)
        if fn.op == "lambda" and not kw and len(args) == len(fn.a[0]) and not any(a.op == "star" for a in args):
            # (lambda p: E)(a) is E with a for p
            bind = dict(zip(fn.a[0], args))
            return tm.rebuild(fn.a[1], lambda x: bind.get(x.a[0]) if x.op == "lparam" else None)
        return tm.call(fn, args, kw)


def _is_local_buffer(t):
    """a freshly allocated array (np.zeros / np.empty / np.ones / np.full ...), possibly with stores already made"""
    for _ in range(60):
        if t.op == "upd":
            t = t.a[0]
        elif t.op in ("loop", "loopvar"):
            t = t.a[2]
        else:
            break
    return t.op == "call" and tm.callee_name(t.a[0]) in ("np.zeros", "np.empty", "np.ones", "np.full", "np.zeros_like", "np.empty_like", "np.ones_like", "np.full_like")


BOUND_METHOD_NAMES = {"split", "match", "search", "fullmatch", "get", "append", "extend", "add", "setdefault", "pop", "insert", "update", "items", "keys", "values", "discard", "remove", "index", "count"}
_ARRAY_ATTRS = {"shape", "size", "ndim", "T", "dtype", "real", "imag", "flat", "data", "count", "index", "start", "stop", "step", "args", "message"}


def _namedtuple_fields(node):
    """field names of `collections.namedtuple("X", [...])` / `namedtuple("X", "a b")`, else None"""
    if not isinstance(node, ast.Call) or len(node.args) < 2 or node.keywords:
        return None
    fn = node.func
    nm = fn.attr if isinstance(fn, ast.Attribute) else (fn.id if isinstance(fn, ast.Name) else None)
    if nm != "namedtuple":
        return None
    a = node.args[1]
    if isinstance(a, ast.Constant) and isinstance(a.value, str):
        return a.value.replace(",", " ").split()
    if isinstance(a, (ast.List, ast.Tuple)) and all(isinstance(e, ast.Constant) and isinstance(e.value, str) for e in a.elts):
        return [e.value for e in a.elts]
    return None


def _namedtuples(P):
    """({"mod.Name": [fields]}, {field: {positions}}) over the whole program"""
    got = getattr(P, "_namedtuples", None)
    if got is None:
        classes, fields = {}, {}
        for m in P.modules.values():
            for name, node in m.const_nodes.items():
                fl = _namedtuple_fields(node)
                if fl is not None:
                    classes["%s.%s" % (m.name, name)] = fl
                    for i, f_ in enumerate(fl):
                        fields.setdefault(f_, set()).add(i)
        got = (classes, fields)
        P._namedtuples = got
    return got


def _resigned(P, q):
    """a private helper of the inventory whose parameter list is no longer the recorded one"""
    return P.resigned(q)


_NOLIT = object()


def _literal_of_node(node):
    """value of a module-level constant that is a plain scalar literal (number, string, bool, None), else _NOLIT"""
    try:
        v = ast.literal_eval(node)
    except Exception:
        return _NOLIT
    if v is None or isinstance(v, (int, float, str, bool)):
        return v
    return _NOLIT


UNROLL = True
SPLIT_ITE_RETURNS = True


def _boolean_valued_term(t, depth=0):
    if depth > 6:
        return False
    if t.op in ("cmp", "bool"):
        return True
    if t.op == "un" and t.a[0] == "not":
        return True
    if t.op == "const":
        return isinstance(t.a[0], bool)
    if t.op == "ite":
        return _boolean_valued_term(t.a[1], depth + 1) and _boolean_valued_term(t.a[2], depth + 1)
    if t.op == "call":
        return tm.callee_name(t.a[0]) in ("builtins.any", "builtins.all", "builtins.bool", "builtins.isinstance", "np.any", "np.all", "np.allclose", "np.array_equal")
    return False


def _params_written_in_place(g):
    """parameters of a helper that its body stores into, augments or calls a mutator method on"""
    out = set()
    ps = set(g.params)
    for n in ast.walk(g.node):
        if isinstance(n, (ast.Subscript, ast.Attribute)) and isinstance(n.ctx, (ast.Store, ast.Del)):
            r = _root_name(n)
            if r in ps:
                out.add(r)
        elif isinstance(n, ast.AugAssign):
            r = _root_name(n.target)
            if r in ps:
                out.add(r)
        elif isinstance(n, ast.Call) and isinstance(n.func, ast.Attribute) and n.func.attr in MUTATOR_METHODS:
            r = _root_name(n.func.value)
            if r in ps:
                out.add(r)
        elif isinstance(n, ast.Call):
            for k in n.keywords:
                if k.arg == "out":
                    r = _root_name(k.value)
                    if r in ps:
                        out.add(r)
    return out


def _rebound_globals(module):
    """module-level names assigned more than once or declared `global` somewhere"""
    cached = getattr(module, "_rebound_globals", None)
    if cached is not None:
        return cached
    out = set()
    seen = set()
    for st in module.tree.body:
        for n in ast.walk(st) if isinstance(st, (ast.Assign, ast.AugAssign, ast.AnnAssign, ast.For, ast.If, ast.With, ast.Try)) else []:
            if isinstance(n, ast.Name) and isinstance(n.ctx, ast.Store):
                if n.id in seen:
                    out.add(n.id)
                seen.add(n.id)
    for n in ast.walk(module.tree):
        if isinstance(n, ast.Global):
            out.update(n.names)
        elif isinstance(n, ast.AugAssign) and isinstance(n.target, ast.Name):
            out.add(n.target.id)
    module._rebound_globals = out
    return out


def _mutated_globals(module):
    """module-level names that some code stores into, updates in place or hands out for mutation: not constant tables"""
    cached = getattr(module, "_mutated_globals", None)
    if cached is not None:
        return cached
    out = set()
    top = set(module.const_nodes)
    for n in ast.walk(module.tree):
        if isinstance(n, ast.Global):
            out.update(n.names)
        elif isinstance(n, (ast.Subscript, ast.Attribute)) and isinstance(n.ctx, (ast.Store, ast.Del)):
            r = _root_name(n)
            if r in top:
                out.add(r)
        elif isinstance(n, ast.AugAssign):
            r = _root_name(n.target)
            if r in top:
                out.add(r)
        elif isinstance(n, ast.Call) and isinstance(n.func, ast.Attribute) and n.func.attr in MUTATOR_METHODS:
            r = _root_name(n.func.value)
            if r in top:
                out.add(r)
    # a mutable display that escapes (bound to another name, passed on, returned) may be written through the alias:
    # only tuples, and lists / dicts that are merely indexed, searched, measured or iterated, stay constant tables
    parents = {}
    for n in ast.walk(module.tree):
        for ch in ast.iter_child_nodes(n):
            parents[ch] = n
    for n in ast.walk(module.tree):
        if isinstance(n, ast.Name) and isinstance(n.ctx, ast.Load) and n.id in top and n.id not in out:
            node = module.const_nodes.get(n.id)
            if isinstance(node, ast.Tuple):
                continue
            par = parents.get(n)
            ok = False
            if isinstance(par, ast.Subscript) and par.value is n and isinstance(par.ctx, ast.Load):
                ok = True
            elif isinstance(par, ast.Attribute) and par.value is n and par.attr in ("get", "items", "keys", "values", "index", "count"):
                ok = True
            elif isinstance(par, ast.For) and par.iter is n:
                ok = True
            elif isinstance(par, ast.comprehension) and par.iter is n:
                ok = True
            elif isinstance(par, ast.Compare) and n in par.comparators and all(isinstance(o, (ast.In, ast.NotIn)) for o in par.ops):
                ok = True
            elif isinstance(par, ast.Call) and isinstance(par.func, ast.Name) and par.func.id in ("len", "sorted", "tuple", "list", "dict", "set", "frozenset", "enumerate", "zip") and n in par.args:
                ok = True
            if not ok:
                out.add(n.id)
    module._mutated_globals = out
    return out


def _own_nodes(fn_node):
    """statements of a function that are not inside a nested function or class"""
    out = []
    stack = list(fn_node.body)
    while stack:
        n = stack.pop()
        out.append(n)
        if isinstance(n, (ast.FunctionDef, ast.Lambda, ast.ClassDef)):
            continue
        for ch in ast.iter_child_nodes(n):
            if isinstance(ch, ast.stmt) or isinstance(ch, ast.excepthandler):
                stack.append(ch)
    return out


def _product_as_nested_loops(st):
    """`for a, b in itertools.product(A, B)` (or product(A, repeat=2)) is `for a in A: for b in B:` when the body
    neither breaks nor has an else clause (continue moves on to the next pair in both spellings)."""
    it = st.iter
    if not (isinstance(it, ast.Call) and isinstance(it.func, ast.Attribute) and it.func.attr == "product" and isinstance(it.func.value, ast.Name) and it.func.value.id == "itertools"):
        return st
    if st.orelse or not isinstance(st.target, (ast.Tuple, ast.List)) or any(isinstance(a, ast.Starred) for a in it.args):
        return st
    if any(isinstance(n, ast.Break) for n in _own_loop_nodes(st)):
        return st
    seqs = list(it.args)
    rep = [k for k in it.keywords if k.arg == "repeat"]
    if len(rep) != len(it.keywords):
        return st
    if rep:
        if not (isinstance(rep[0].value, ast.Constant) and isinstance(rep[0].value.value, int) and 1 <= rep[0].value.value <= 4):
            return st
        seqs = seqs * rep[0].value.value
    if len(seqs) != len(st.target.elts) or len(seqs) < 2:
        return st
    # the sequences are evaluated once, before the loops start: only side-effect free re-evaluable forms are expanded
    def simple(e):
        return isinstance(e, ast.Name) or (isinstance(e, ast.Call) and isinstance(e.func, ast.Name) and e.func.id == "range" and all(isinstance(a, (ast.Name, ast.Constant, ast.Attribute, ast.Subscript, ast.BinOp)) for a in e.args) and not e.keywords)
    if not all(simple(e) for e in seqs):
        return st
    names = [e.id for e in seqs if isinstance(e, ast.Name)]
    if len(set(names)) != len(names):
        return st  # product(G, G) of a one-shot iterator is not the nested loop
    body = st.body
    for tgt, seq in reversed(list(zip(st.target.elts, seqs))):
        loop = ast.copy_location(ast.For(target=tgt, iter=seq, body=body, orelse=[], type_comment=None), st)
        body = [loop]
    return body[0]


def _own_loop_nodes(st):
    """statements of a loop body that belong to this loop (not to a nested loop or function)"""
    out = []
    stack = list(st.body)
    while stack:
        n = stack.pop()
        out.append(n)
        if isinstance(n, (ast.For, ast.While, ast.FunctionDef, ast.Lambda, ast.ClassDef)):
            continue
        for ch in ast.iter_child_nodes(n):
            if isinstance(ch, ast.stmt) or isinstance(ch, ast.excepthandler):
                stack.append(ch)
    return out


class _InlineFrame(object):
    def __init__(self, base_len):
        self.base_len = base_len
        self.returns = []  # (term, pc)
        self.return_envs = []  # helper environment at each return (for in-place effects on arguments)
        self.failed = False


def _handler_types(st):
    out = []
    for h in st.handlers:
        out.append(ast.unparse(h.type) if h.type is not None else None)
    return out


def _root_name(node):
    while True:
        if isinstance(node, (ast.Subscript, ast.Attribute)):
            node = node.value
        elif isinstance(node, ast.Call) and isinstance(node.func, ast.Attribute) and node.func.attr in ("setdefault", "get"):
            # G.setdefault(k, []).append(v): the object written is (an element of) G
            node = node.func.value
        else:
            break
    if isinstance(node, ast.Name):
        return node.id
    return None


def _is_module_term(t):
    return t.op in ("mod", "ext", "func", "builtin", "class")


def _maybe_undef(t, depth=0):
    if t.op == "undef":
        return True
    if t.op == "ite" and depth < 8:
        return _maybe_undef(t.a[1], depth + 1) or _maybe_undef(t.a[2], depth + 1)
    return False


# ---------------------------------------------------------- path-condition help


def _strip_not(c, pol):
    """`not X` holding is X failing: conditions are reported without leading negations"""
    while c.op == "un" and c.a[0] == "not":
        c = c.a[1]
        pol = not pol
    return c, pol


_COMPLEMENT = {"notin": "in", "isnot": "is", "!=": "==", "in": "notin", "is": "isnot", "==": "!="}


def holds(c, pol, op):
    """Does the path fact (c, pol) state the comparison `a <op> b` for an equality-like operator
    (in / notin / is / isnot / == / !=), whichever of the two complementary spellings the code uses?"""
    if c.op != "cmp":
        return False
    if c.a[0] == op and pol:
        return True
    return _COMPLEMENT.get(c.a[0]) == op and not pol


def pc_conds(pc):
    """[(cond_term, polarity)] of the 'if' items of a path condition."""
    return [_strip_not(c[1], c[2]) for c in pc if c[0] == "if"]


def pc_conds_full(pc):
    """[(cond_term, polarity, origin)]; origin 'raise'/'return'/'mixed' when the condition
    holds because the opposite branch left the function, None for an enclosing branch."""
    return [_strip_not(c[1], c[2]) + (c[3],) for c in pc if c[0] == "if"]


def pc_either(pc):
    return [c for c in pc if c[0] == "either"]


def pc_loops(pc):
    return [c[1] for c in pc if c[0] == "loop"]


def pc_in_try(pc):
    return [c for c in pc if c[0] == "try"]


def pc_in_except(pc):
    return [c for c in pc if c[0] == "except"]
