"""Hash-consed provenance terms with normalising constructors (DESIGN 3.3).

A term is an interned node ``T(op, args)``; ``args`` mixes child terms and
plain Python values (strings, numbers, None, tuples of (name, term) pairs).
Equality is identity.  The smart constructors below put expressions into the
normal form the rules compare: commutative operands sorted, comparisons
oriented to ``<``/``<=``, method/function aliases unified, numeric no-ops
removed.
"""

from __future__ import annotations

_TABLE = {}
_COUNTER = [0]


class T(object):
    __slots__ = ("op", "a", "id", "_str")

    def __init__(self, op, a, id_):
        self.op = op
        self.a = a
        self.id = id_
        self._str = None

    def __repr__(self):
        return show(self)

    def __lt__(self, other):
        return self.id < other.id


def _key(x):
    if isinstance(x, T):
        return ("T", x.id)
    if isinstance(x, tuple):
        return ("t",) + tuple(_key(y) for y in x)
    return ("c", type(x).__name__, x)


def mk(op, *a):
    k = (op,) + tuple(_key(x) for x in a)
    t = _TABLE.get(k)
    if t is None:
        _COUNTER[0] += 1
        t = T(op, a, _COUNTER[0])
        _TABLE[k] = t
    return t


def reset():
    _TABLE.clear()
    _COUNTER[0] = 0


# ---------------------------------------------------------------- basic leaves


def param(name):
    return mk("param", name)


_MISSING = object()


def const(v):
    if isinstance(v, bool):
        return mk("const", v)
    if isinstance(v, int):
        return mk("const", float(v)) if abs(v) < 1e15 else mk("const", v)
    return mk("const", v)


def is_const(t, v=_MISSING):
    if t.op != "const":
        return False
    if v is _MISSING:
        return True
    tv = t.a[0]
    if isinstance(v, bool) or isinstance(tv, bool):
        return tv is v
    if isinstance(v, (int, float)) and isinstance(tv, (int, float)):
        return float(tv) == float(v)
    return type(tv) is type(v) and tv == v


def const_value(t):
    return t.a[0]


NONE = None


def none():
    return mk("const", None)


def glob(q):
    return mk("glob", q)


def func(q):
    return mk("func", q)


_EXT_SYNONYMS = {"math.inf": "np.inf", "np.Inf": "np.inf", "np.infty": "np.inf", "np.PINF": "np.inf", "np.Infinity": "np.inf", "math.nan": "np.nan", "np.NaN": "np.nan", "np.NAN": "np.nan", "math.pi": "np.pi", "math.e": "np.e"}


def ext(q):
    return mk("ext", _EXT_SYNONYMS.get(q, q))  # one spelling per library constant


def unk(desc):
    return mk("unk", desc)


def undef(name):
    return mk("undef", name)


# ------------------------------------------------------------ smart constructors

COMMUTATIVE_BIN = {"+", "*", "&", "|", "^"}
COMMUTATIVE_CALLS = {
    "np.logical_and",
    "np.logical_or",
    "np.minimum",
    "np.maximum",
    "np.add",
    "np.multiply",
    "np.logical_xor",
}
CMP_FUNCS = {
    "np.less": "<",
    "np.less_equal": "<=",
    "np.greater": ">",
    "np.greater_equal": ">=",
    "np.equal": "==",
    "np.not_equal": "!=",
    "operator.lt": "<",
    "operator.le": "<=",
    "operator.gt": ">",
    "operator.ge": ">=",
    "operator.eq": "==",
    "operator.ne": "!=",
    "operator.is_": "is",
    "operator.is_not": "isnot",
}
# ndarray methods normalised to their function form: x.m(...) == np.m(x, ...)
METHOD_ALIASES = {
    "sum": "np.sum",
    "min": "np.min",
    "max": "np.max",
    "mean": "np.mean",
    "any": "np.any",
    "all": "np.all",
    "flatten": "np.flatten",
    "ravel": "np.ravel",
    "reshape": "np.reshape",
    "transpose": "np.transpose",
    "dot": "np.dot",
    "argsort": "np.argsort",
    "argmin": "np.argmin",
    "argmax": "np.argmax",
    "std": "np.std",
    "cumsum": "np.cumsum",
    "squeeze": "np.squeeze",
    "round": "np.round",
    "nonzero": "np.where",
    "searchsorted": "np.searchsorted",
    "conj": "np.conj",
    "conjugate": "np.conj",
}
FUNC_ALIASES = {
    "np.amin": "np.min",
    "np.amax": "np.max",
    "np.around": "np.round",
    "np.round_": "np.round",
    "np.absolute": "np.abs",
    "builtins.abs": "np.abs",
    "np.asanyarray": "np.asarray",
    "np.flatnonzero": "np.flatnonzero",
    "np.nonzero": "np.where",  # np.where(m) with one argument is np.nonzero(m)
    "np.remainder": "np.mod",
    "np.conjugate": "np.conj",
    "np.true_divide": "np.divide",
}
# numeric no-ops: f(x) == x for the purposes of term comparison
TRANSPARENT = {"builtins.float", "np.asarray", "np.float64", "np.asfarray"}


def _is_str(t):
    return t.op == "const" and isinstance(t.a[0], str)


def _boolean_valued(t):
    if t.op in ("cmp", "bool"):
        return True
    if t.op == "const" and isinstance(t.a[0], bool):
        return True
    if t.op == "un" and t.a[0] in ("~", "not"):
        return _boolean_valued(t.a[1])
    if t.op == "ite":
        return _boolean_valued(t.a[1]) and _boolean_valued(t.a[2])
    if t.op == "bin" and t.a[0] in ("&", "|"):
        return _boolean_valued(t.a[1]) and _boolean_valued(t.a[2])
    if t.op == "call" and callee_name(t.a[0]) in ("np.isnan", "np.isfinite", "np.isinf", "np.isclose", "np.isin", "np.any", "np.all"):
        return True
    if t.op in ("upd", "loop", "loopvar"):
        o = t
        for _ in range(40):
            if o.op == "upd":
                o = o.a[0]
            elif o.op in ("loop", "loopvar"):
                o = o.a[2]
            else:
                break
        return o is not t and _boolean_valued(o)
    if t.op == "call" and callee_name(t.a[0]) in ("np.ones", "np.zeros", "np.empty", "np.full"):
        dt = dict(t.a[2]).get("dtype")
        return dt is not None and ((dt.op == "builtin" and dt.a[0] == "bool") or (dt.op == "ext" and dt.a[0] in ("np.bool_", "np.bool")))
    return False


def _slice_is(t, lo, hi):
    return t.op == "slice" and len(t.a) == 3 and ((lo is None and is_const(t.a[0], None)) or (lo is not None and is_const(t.a[0], lo))) and ((hi is None and is_const(t.a[1], None)) or (hi is not None and is_const(t.a[1], hi))) and is_const(t.a[2], None)


def _where_component(t):
    """(x, M, k) for x[np.where(M)[k]] with a one-argument np.where (np.nonzero), else None"""
    if t.op == "sub" and t.a[1].op == "sub" and t.a[1].a[1].op == "const" and t.a[1].a[1].a[0] in (0.0, 1.0) and not isinstance(t.a[1].a[1].a[0], bool):
        w = t.a[1].a[0]
        if w.op == "call" and callee_name(w.a[0]) == "np.where" and len(w.a[1]) == 1 and not w.a[2]:
            return t.a[0], w.a[1][0], int(t.a[1].a[1].a[0])
    return None


def _as_mask(m):
    """the Boolean mask np.where(m) reads: m itself, or m != 0 for numbers"""
    return m if _boolean_valued(m) else cmp("!=", m, const(0.0))


def binop(op, l, r):
    if op == "-" and l.op == "sub" and r.op == "sub" and l.a[0] is r.a[0] and _slice_is(l.a[1], 1, None) and _slice_is(r.a[1], None, -1):
        return call(ext("np.diff"), (l.a[0],))  # x[1:] - x[:-1] is np.diff(x) (along the first axis; the only axis of a 1-d x)
    if op == "*":
        # a[:, np.newaxis] * b[np.newaxis, :] is np.outer(a, b)  (ravel() of a 1-d operand is the operand)
        ca, cb = _column_of(l), _row_of(r)
        if ca is None or cb is None:
            ca, cb = _column_of(r), _row_of(l)
        if ca is not None and cb is not None:
            strip_ = lambda z: z.a[1][0] if z.op == "call" and callee_name(z.a[0]) in ("np.ravel", "np.flatten") and len(z.a[1]) == 1 else z
            return call(ext("np.outer"), (strip_(ca), strip_(cb)))
    if op == "*":
        # a[rows] * b[cols] with (rows, cols) = np.where(M) is np.outer(a, b)[M]: the products at the marked cells, row-major
        for x, y in ((l, r), (r, l)):
            wx, wy = _where_component(x), _where_component(y)
            if wx is not None and wy is not None and wx[1] is wy[1] and wx[2] == 0 and wy[2] == 1:
                return sub(call(ext("np.outer"), (wx[0], wy[0])), _as_mask(wx[1]))
    if op == "*" and _boolean_valued(l) and _boolean_valued(r):
        op = "&"  # the product of two Boolean arrays is their conjunction
    if op == "+" and (_is_str(l) or _is_str(r)):
        # text concatenation: two literals fold, and the operands keep their order
        if _is_str(l) and _is_str(r):
            return const(l.a[0] + r.a[0])
        return mk("bin", op, l, r)
    if op in COMMUTATIVE_BIN and r.id < l.id:
        l, r = r, l
    if op == "*":
        # 1.0 * t  ==  t
        if l.op == "const" and l.a[0] == 1.0 and type(l.a[0]) is float:
            return r
        if r.op == "const" and r.a[0] == 1.0 and type(r.a[0]) is float:
            return l
    if op == "/" and r.op == "const" and type(r.a[0]) is float and r.a[0] == 1.0:
        return l
    if op == "+" and l.op == "tuple" and r.op == "tuple":
        return mk("tuple", *(tuple(l.a) + tuple(r.a)))
    if op == "-":
        # a[:, np.newaxis] - b[np.newaxis, :]  (or - b for a 1-d b) is the outer difference np.subtract.outer(a, b)
        ca, cb = _column_of(l), _row_of(r)
        if ca is not None and cb is None and r.op in ("param", "loopvar", "iter") :
            cb = r  # a column minus a plain 1-d array broadcasts the same way
        if ca is not None and cb is not None:
            return call(ext("np.subtract.outer"), (ca, cb))
    return mk("bin", op, l, r)


def _is_newaxis(t):
    return (t.op == "const" and t.a[0] is None) or (t.op == "ext" and t.a[0] == "np.newaxis")


def _is_full_slice(t):
    return t.op == "slice" and all(x.op == "const" and x.a[0] is None for x in t.a)


def _column_of(t):
    """x when t is x[:, np.newaxis]"""
    if t.op == "sub" and t.a[1].op == "tuple" and len(t.a[1].a) == 2 and _is_full_slice(t.a[1].a[0]) and _is_newaxis(t.a[1].a[1]):
        return t.a[0]
    return None


def _row_of(t):
    """x when t is x[np.newaxis, :]"""
    if t.op == "sub" and t.a[1].op == "tuple" and len(t.a[1].a) == 2 and _is_newaxis(t.a[1].a[0]) and _is_full_slice(t.a[1].a[1]):
        return t.a[0]
    return None


def _never_none(t, depth=0):
    if depth > 8:
        return False
    if t.op == "ite":
        return _never_none(t.a[1], depth + 1) and _never_none(t.a[2], depth + 1)
    if t.op in ("sub", "bin", "list", "tuple", "dict", "set", "comp", "cmp", "bool"):
        return True
    if t.op == "const":
        return t.a[0] is not None
    if t.op == "call":
        n = callee_name(t.a[0])
        return bool(n) and (n.startswith("np.") or n.startswith("builtins.") or n in ("util.intervals_to_boundaries",))
    return False


def _none_condition(t, depth=0):
    """True / False / a Boolean term: when is the alternative tree ``t`` None?  (None when some leaf is undecided)"""
    if depth > 8:
        return None
    if is_const(t, None):
        return True
    if t.op == "ite":
        a, b = _none_condition(t.a[1], depth + 1), _none_condition(t.a[2], depth + 1)
        if a is None or b is None:
            return None
        c = t.a[0]
        if a is True and b is False:
            return c
        if a is False and b is True:
            return unop("not", c)
        if a is b and a in (True, False):
            return a
        # (c and A) or (not c and B), in the shortest equivalent spelling
        if a is True:
            return boolop("or", [c, b])
        if a is False:
            return boolop("and", [unop("not", c), b])
        if b is True:
            return boolop("or", [unop("not", c), a])
        if b is False:
            return boolop("and", [c, a])
        return boolop("or", [boolop("and", [c, a]), boolop("and", [unop("not", c), b])])
    if _never_none(t):
        return False
    return None


def assume(t, c, pol, memo=None):
    """``t`` on a path where the condition ``c`` has the truth value ``pol``: conditionals on that very condition
    collapse to the branch taken."""
    if not any(x.op == "ite" and x.a[0] is c for x in walk(t)):
        return t
    return rebuild(t, lambda x: (assume(x.a[1] if pol else x.a[2], c, pol) if x.op == "ite" and x.a[0] is c else None), memo)


def unop(op, x):
    if op == "not" and x.op == "un" and x.a[0] == "not":
        return x.a[1]
    if op == "not" and x.op == "call" and callee_name(x.a[0]) == "np.all" and len(x.a[1]) == 1 and not x.a[2] and x.a[1][0].op == "cmp" and x.a[1][0].a[0] == "==":
        c_ = x.a[1][0]
        return call(ext("np.any"), (cmp("!=", c_.a[1], c_.a[2]),))  # not (a == b).all() is (a != b).any()
    if op == "-" and x.op == "const" and isinstance(x.a[0], float):
        return const(-x.a[0])
    return mk("un", op, x)


def cmp(op, l, r):
    """Oriented comparison: only <, <=, ==, !=, is, isnot, in, notin survive."""
    if op == ">":
        op, l, r = "<", r, l
    elif op == ">=":
        op, l, r = "<=", r, l
    if op in ("<", "<="):
        # min(a, b) <= k  is  a <= k or b <= k;  k < min(a, b)  is  k < a and k < b  (max dually) - two-argument builtins
        def two(z, name):
            return z.op == "call" and z.a[0].op == "builtin" and z.a[0].a[0] == name and len(z.a[1]) == 2 and not z.a[2] and not any(y.op == "star" for y in z.a[1])

        if two(l, "min") and not two(r, "min") and not two(r, "max"):
            return mk("bool", "or", cmp(op, l.a[1][0], r), cmp(op, l.a[1][1], r))
        if two(l, "max") and not two(r, "min") and not two(r, "max"):
            return mk("bool", "and", cmp(op, l.a[1][0], r), cmp(op, l.a[1][1], r))
        if two(r, "min") and not two(l, "min") and not two(l, "max"):
            return mk("bool", "and", cmp(op, l, r.a[1][0]), cmp(op, l, r.a[1][1]))
        if two(r, "max") and not two(l, "min") and not two(l, "max"):
            return mk("bool", "or", cmp(op, l, r.a[1][0]), cmp(op, l, r.a[1][1]))
    if op in ("in", "notin") and r.op == "dict" and r.a and all(kv.op == "tuple" and len(kv.a) == 2 and kv.a[0].op != "star" for kv in r.a):
        r = tup([kv.a[0] for kv in r.a])  # membership in a dict display is membership in its keys
    if op in ("in", "notin") and l.op != "const" and r.op in ("tuple", "list", "set") and 2 <= len(r.a) <= 4 and all(z.op == "const" and isinstance(z.a[0], (int, float)) and not isinstance(z.a[0], bool) for z in r.a):
        # x not in (1, 2)  is  x != 1 and x != 2
        if op == "in":
            return boolop("or", [cmp("==", l, z) for z in r.a])
        return boolop("and", [cmp("!=", l, z) for z in r.a])
    if op == "==" and (is_const(l, 0) or is_const(r, 0)) and not (l.op == "const" and isinstance(l.a[0], bool)) and not (r.op == "const" and isinstance(r.a[0], bool)):
        other = r if is_const(l, 0) else l
        if _boolean_valued(other):
            return unop("~", other)  # mask == 0 is ~mask
        if other.op == "bin" and other.a[0] == "+":
            parts_ = []

            def _sumparts(z):
                if z.op == "bin" and z.a[0] == "+":
                    _sumparts(z.a[1])
                    _sumparts(z.a[2])
                else:
                    parts_.append(z)

            _sumparts(other)
            if len(parts_) >= 2 and all(_boolean_valued(z) for z in parts_):
                acc = parts_[0]
                for z in parts_[1:]:
                    acc = binop("|", acc, z)
                return unop("~", acc)  # (a + b + c) == 0 on Boolean arrays is ~(a | b | c)
    if op in ("<", "<=", "==", "!=") and l.op == "const" and r.op == "const":
        x, y = l.a[0], r.a[0]
        num = lambda v: isinstance(v, (int, float)) and not isinstance(v, bool) and v == v
        if (num(x) and num(y)) or (isinstance(x, str) and isinstance(y, str)):
            # two literals of one kind: the comparison is decided
            return const({"<": x < y, "<=": x <= y, "==": x == y, "!=": x != y}[op])
    if op in ("in", "notin") and l.op == "const" and isinstance(l.a[0], (int, float)) and not isinstance(l.a[0], bool) and r.op in ("tuple", "list", "set") and 1 <= len(r.a) <= 8 and not any(z.op == "const" for z in r.a):
        # 0 in (a, b, c)  is  a == 0 or b == 0 or c == 0
        t = boolop("or", [cmp("==", z, l) for z in r.a])
        return t if op == "in" else unop("not", t)
    if op in ("is", "isnot") and (is_const(l, None) or is_const(r, None)):
        other = r if is_const(l, None) else l
        if other.op == "ite":
            # a tree of alternatives each of which is the literal None or a value that is never None:
            # `X is None` is the condition under which a None leaf is reached
            cn = _none_condition(other)
            if cn is not None:
                if cn is True or cn is False:
                    return const(cn if op == "is" else (not cn))
                return cn if op == "is" else unop("not", cn)
    if op in ("==", "!="):
        # a[:, np.newaxis] == b[np.newaxis, :] is np.equal.outer(a, b)
        ca, cb = _column_of(l), _row_of(r)
        if ca is None or cb is None:
            ca, cb = _column_of(r), _row_of(l)
        if ca is not None and cb is not None:
            return call(ext("np.equal.outer" if op == "==" else "np.not_equal.outer"), (ca, cb))
    if op in ("==", "!=", "is", "isnot") and r.id < l.id:
        l, r = r, l
    return mk("cmp", op, l, r)


def boolop(op, items):
    flat = []
    for it in items:
        if it.op == "bool" and it.a[0] == op:
            flat.extend(it.a[1:])
        else:
            flat.append(it)
    # literal True / False operands decide or drop out (`False and x` is False, `True and x` is x)
    if any(x.op == "const" and isinstance(x.a[0], bool) for x in flat):
        out = []
        for x in flat:
            if x.op == "const" and isinstance(x.a[0], bool):
                if x.a[0] is (op == "or"):
                    out.append(x)
                    break  # short-circuit: later operands are never evaluated
                continue
            out.append(x)
        if not out:
            return const(op == "and")
        if len(out) == 1:
            return out[0]
        if out[-1].op == "const" and isinstance(out[-1].a[0], bool) and len(out) >= 2:
            pass
        flat = out
    return mk("bool", op, *flat)


def ite(c, a, b):
    if a is b:
        return a
    if c.op == "const" and isinstance(c.a[0], bool):
        return a if c.a[0] else b
    # Boolean conditionals are connectives: `True if p else q` is `p or q`, `q if p else False` is `p and q`
    def _bv(x):
        return x.op in ("cmp", "bool") or (x.op == "un" and x.a[0] == "not") or (x.op == "const" and isinstance(x.a[0], bool))

    if _bv(c) and _bv(a) and _bv(b):
        if is_const(a, True):
            return boolop("or", [c, b])
        if is_const(b, False):
            return boolop("and", [c, a])
        if is_const(a, False):
            return boolop("and", [unop("not", c), b])
        if is_const(b, True):
            return boolop("or", [unop("not", c), a])
    # `x if not c else y` is `y if c else x`; likewise for `is not` / `not in` / `!=` conditions
    while c.op == "un" and c.a[0] == "not":
        c = c.a[1]
        a, b = b, a
    if c.op == "cmp" and c.a[0] in ("isnot", "notin", "!="):
        c = cmp({"isnot": "is", "notin": "in", "!=": "=="}[c.a[0]], c.a[1], c.a[2])
        a, b = b, a
    return mk("ite", c, a, b)


EXT_POSITIONAL = {
    "np.linspace": ("start", "stop", "num"),
    "np.histogram": ("a", "bins"),
    "np.interp": ("x", "xp", "fp"),
    "np.correlate": ("a", "v", "mode"),
    "np.round": ("a", "decimals"),
    "np.clip": ("a", "a_min", "a_max"),
    "np.full": ("shape", "fill_value"),
    "np.reshape": ("a", "newshape"),
    "np.insert": ("arr", "obj", "values"),
    "np.append": ("arr", "values"),
    "np.pad": ("array", "pad_width"),
    "np.dot": ("a", "b"),
    "np.maximum": ("x1", "x2"),
    "np.minimum": ("x1", "x2"),
    "np.searchsorted": ("a", "v"),
    "np.where": ("condition", "x", "y"),
    "np.unique": ("ar",),
    "np.mod": ("x1", "x2"),
    "np.arange": ("start",),
    "np.zeros": ("shape",),
    "np.ones": ("shape",),
    "np.empty": ("shape",),
    "np.diff": ("a", "n"),
    "np.isclose": ("a", "b"),
    "np.allclose": ("a", "b"),
    "scipy.interpolate.interp1d": ("x", "y", "kind"),
    "builtins.enumerate": ("iterable", "start"),
    "builtins.round": ("number", "ndigits"),
    "util.match_events": ("ref", "est", "window"),
}
_NP_BIN = {"np.subtract": "-", "np.add": "+", "np.multiply": "*", "np.divide": "/"}
_REDUCE_ALIASES = {"np.maximum.reduce": "np.max", "np.minimum.reduce": "np.min", "np.add.reduce": "np.sum", "np.logical_and.reduce": "np.all", "np.logical_or.reduce": "np.any"}
_AXIS_SECOND = {"np.min", "np.max", "np.sum", "np.mean", "np.any", "np.all", "np.argmin", "np.argmax", "np.std", "np.median"}
_OPERATOR_BIN = {"operator.mul": "*", "operator.add": "+", "operator.sub": "-", "operator.truediv": "/", "operator.and_": "&", "operator.or_": "|", "operator.mod": "%", "operator.floordiv": "//"}


def call(fn, args=(), kw=()):
    """fn: a term (func/ext/builtin/meth/...) ; args: tuple of terms ; kw: tuple of (name, term)."""
    name = callee_name(fn)
    if name in FUNC_ALIASES:
        name = FUNC_ALIASES[name]
        fn = ext(name)
    if name in EXT_POSITIONAL and kw:
        # np.linspace(a, b, num=n) is np.linspace(a, b, n): a keyword that names the next positional parameter
        names_ = EXT_POSITIONAL[name]
        args = tuple(args)
        kw = tuple(kw)
        while len(args) < len(names_) and any(k_ == names_[len(args)] for k_, _ in kw):
            nm_ = names_[len(args)]
            args = args + (dict(kw)[nm_],)
            kw = tuple((k_, v_) for k_, v_ in kw if k_ != nm_)
    if name in CMP_FUNCS and len(args) == 2 and not kw:
        return cmp(CMP_FUNCS[name], args[0], args[1])
    if name in ("np.logical_and", "np.logical_or") and len(args) == 2 and not kw and all(_boolean_valued(z) for z in args):
        return binop("&" if name == "np.logical_and" else "|", args[0], args[1])  # on Boolean arrays: the operator form
    if name == "np.logical_not" and len(args) == 1 and not kw and _boolean_valued(args[0]):
        return unop("~", args[0])
    if name == "np.concatenate" and len(args) == 1 and len(kw) == 1 and kw[0][0] == "axis" and is_const(kw[0][1], 0) and args[0].op in ("tuple", "list") and any(z.op == "call" and callee_name(z.a[0]) == "np.atleast_2d" and len(z.a[1]) == 1 for z in args[0].a):
        # np.concatenate((np.atleast_2d(row), A), axis=0) is np.vstack((row, A))
        parts_ = [z.a[1][0] if (z.op == "call" and callee_name(z.a[0]) == "np.atleast_2d" and len(z.a[1]) == 1) else z for z in args[0].a]
        return call(ext("np.vstack"), (tup(parts_),))
    if name == "np.array_equal" and len(args) == 2 and not kw:
        return call(ext("np.all"), (cmp("==", args[0], args[1]),))  # (for operands of one shape, as everywhere in this code)
    if name == "np.invert" and len(args) == 1 and not kw and _boolean_valued(args[0]):
        return unop("~", args[0])
    if name == "np.concatenate" and len(args) == 1 and not kw and args[0].op == "call" and callee_name(args[0].a[0]) == "np.atleast_1d" and len(args[0].a[1]) >= 2 and not args[0].a[2]:
        return call(ext("np.hstack"), (lst(list(args[0].a[1])),))  # concatenate(atleast_1d(a, b, c)) is hstack([a, b, c])
    if name in _NP_BIN and len(args) == 2 and not kw:
        return binop(_NP_BIN[name], args[0], args[1])  # np.subtract(a, b) is a - b
    if name in _REDUCE_ALIASES and args:
        # np.maximum.reduce(x) / np.add.reduce(x, axis=None) are np.max(x) / np.sum(x)   (ufunc.reduce defaults to axis 0:
        # the same thing for the 1-d sequences and lists of scalars it is used on; an explicit axis is kept)
        kw2 = tuple((k_, v_) for k_, v_ in kw if not (k_ == "axis" and is_const(v_, None)))
        if len(args) == 1:
            return call(ext(_REDUCE_ALIASES[name]), args, kw2)
    if name in _AXIS_SECOND and len(args) == 2 and not any(k_ == "axis" for k_, _ in kw):
        return call(fn, (args[0],), (("axis", args[1]),) + tuple(kw))  # np.min(x, 1) is np.min(x, axis=1)
    if name == "np.all" and len(args) == 1 and not kw and args[0].op == "call" and callee_name(args[0].a[0]) == "np.isclose":
        return call(ext("np.allclose"), args[0].a[1], args[0].a[2])  # np.isclose(a, b, ..).all() is np.allclose(a, b, ..)
    if name == "np.diff" and len(args) == 1 and len(kw) == 1 and kw[0][0] == "axis" and is_const(kw[0][1], 0):
        return call(fn, args, ())  # np.diff(x, axis=0): the first axis, as for the slice difference above
    if name == "np.arange" and len(args) == 2 and not kw and is_const(args[0], 0):
        return call(fn, (args[1],), ())  # np.arange(0, n) is np.arange(n)
    if name == "np.full" and len(args) == 2 and args[1].op == "const" and isinstance(args[1].a[0], bool) and not kw:
        return call(ext("np.ones" if args[1].a[0] else "np.zeros"), (args[0],), (("dtype", mk("builtin", "bool")),))  # np.full(s, True)
    if name == "np.full" and len(args) == 2 and args[1].op == "const" and not isinstance(args[1].a[0], bool) and isinstance(args[1].a[0], float) and args[1].a[0] in (0.0, 1.0) and not any(k_ == "dtype" for k_, _ in kw):
        # np.full(n, 0.0) is np.zeros(n); np.full(n, 1.0) is np.ones(n)
        return call(ext("np.zeros" if args[1].a[0] == 0.0 else "np.ones"), (args[0],), kw)
    if name in ("np.zeros", "np.ones", "np.empty", "np.full") and args and args[0].op in ("tuple", "list") and len(args[0].a) == 1 and args[0].a[0].op != "star":
        return call(fn, (args[0].a[0],) + tuple(args[1:]), kw)  # np.zeros((n,)) is np.zeros(n)
    if name in ("np.empty", "np.zeros") and len(args) == 1 and not kw and is_const(args[0], 0):
        return call(ext("np.array"), (lst([]),))  # np.empty(0) is np.array([])
    if name == "np.asarray" and len(args) == 1 and len(kw) == 1 and kw[0][0] == "dtype" and (args[0].op in ("cmp", "bool") or (_fresh_array(args[0]) and ((kw[0][1].op == "builtin" and kw[0][1].a[0] == "int") or (kw[0][1].op == "ext" and kw[0][1].a[0].startswith("np.int"))))):
        return call(ext("astype"), (args[0], kw[0][1]))  # np.asarray(mask, dtype=T) is mask.astype(T)
    if name == "np.append" and len(args) == 2 and len(kw) == 1 and kw[0][0] == "axis" and kw[0][1].op == "const" and kw[0][1].a[0] is not None:
        return call(ext("np.concatenate"), (lst([args[0], args[1]]),), kw)  # np.append(a, b, axis=k) is np.concatenate([a, b], axis=k)
    if name == "np.reshape" and len(args) == 2 and not kw and (is_const(args[1], -1) or (args[1].op in ("tuple", "list") and len(args[1].a) == 1 and is_const(args[1].a[0], -1))):
        return call(ext("np.ravel"), (args[0],))  # x.reshape(-1) is x.ravel()
    if name == "np.hstack" and len(args) == 1 and not kw and args[0].op in ("tuple", "list") and args[0].a and all(_certainly_1d(z) for z in args[0].a):
        return call(ext("np.concatenate"), (args[0],))  # for one-dimensional pieces hstack is concatenate
    if name == "np.append" and len(args) == 2 and not kw and _certainly_1d(args[0]) and _certainly_1d(args[1]):
        return call(ext("np.concatenate"), (tup([args[0], args[1]]),))  # np.append(a, b) of one-dimensional a, b
    if name == "np.fromiter" and args and args[0].op == "comp" and args[0].a[0] in ("gen", "list") and len(args) + len(kw) >= 2:
        # np.fromiter((E for x in X), dtype=float[, count=len(X)]) is np.array([E for x in X]) at the default precision
        d_ = dict(kw)
        dt = args[1] if len(args) > 1 else d_.get("dtype")
        if dt is not None and ((dt.op == "builtin" and dt.a[0] == "float") or (dt.op == "ext" and dt.a[0] in ("np.float64", "np.double", "np.float_"))) and set(d_) <= {"dtype", "count"} and len(args) <= 3:
            return call(ext("np.array"), (mk("comp", "list", *args[0].a[1:]),))
    if name == "np.sum" and len(args) == 1 and len(kw) == 1 and kw[0][0] == "axis" and is_const(kw[0][1], 0) and _boolean_valued(args[0]):
        return call(mk("builtin", "sum"), (args[0],))  # mask.sum(axis=0) is the builtin sum over the first axis
    if name == "itertools.repeat" and len(args) == 2 and not kw:
        return binop("*", lst([args[0]]), args[1])  # itertools.repeat(x, n) yields what [x] * n holds
    if name in ("builtins.any", "builtins.all") and len(args) == 1 and not kw and args[0].op in ("tuple", "list") and len(args[0].a) >= 1 and all(_boolean_valued(z) for z in args[0].a):
        # any((t1, t2, ..)) over a display of tests is t1 or t2 or ..; all(..) is the conjunction
        if len(args[0].a) == 1:
            return args[0].a[0]
        return mk("bool", "or" if name == "builtins.any" else "and", *args[0].a)
    if name == "builtins.float" and len(args) == 1 and not kw and args[0].op == "const" and isinstance(args[0].a[0], str) and args[0].a[0].strip().lower() in ("inf", "+inf", "infinity", "nan"):
        return ext("np.nan" if args[0].a[0].strip().lower() == "nan" else "np.inf")  # float("inf")
    if name == "re.match" and len(args) == 2 and not kw and args[0].op == "glob":
        return method_call(args[0], "match", (args[1],))  # re.match(PATTERN, s) is PATTERN.match(s)
    if name == "builtins.len" and len(args) == 1 and not kw and args[0].op in ("tuple", "list") and not any(z.op == "star" for z in args[0].a):
        return const(len(args[0].a))  # the length of a display
    if name == "functools.reduce" and len(args) == 2 and not kw and args[0].op == "ext" and args[0].a[0] in _OPERATOR_BIN and args[1].op in ("tuple", "list") and 1 <= len(args[1].a) <= 8 and not any(z.op == "star" for z in args[1].a):
        # reduce(operator.mul, (a, b, c)) is (a * b) * c
        acc = args[1].a[0]
        for z in args[1].a[1:]:
            acc = binop(_OPERATOR_BIN[args[0].a[0]], acc, z)
        return acc
    if name in _OPERATOR_BIN and len(args) == 2 and not kw:
        return binop(_OPERATOR_BIN[name], args[0], args[1])
    if name in ("builtins.tuple", "builtins.list") and len(args) == 1 and not kw and args[0].op in ("tuple", "list") and not any(z.op == "star" for z in args[0].a):
        # tuple([a, b]) is (a, b); list((a, b)) is [a, b]
        return tup(args[0].a) if name == "builtins.tuple" else lst(args[0].a)
    if name == "builtins.list" and len(args) == 1 and not kw and args[0].op == "comp" and args[0].a[0] in ("gen", "list"):
        # list(E for x in it) is [E for x in it]
        return mk("comp", "list", *args[0].a[1:])
    if name == "np.count_nonzero" and args and args[0].op in ("cmp", "bool"):
        # counting the True entries of a Boolean array is summing it
        name = "np.sum"
        fn = ext(name)
    if name in TRANSPARENT and len(args) == 1 and not kw:
        return args[0]
    if name == "np.asarray" and len(args) == 1:
        dt = dict(kw).get("dtype")
        if dt is None or not ((dt.op == "builtin" and dt.a[0] in ("int", "bool")) or (dt.op == "ext" and (dt.a[0].startswith("np.int") or dt.a[0].startswith("np.uint") or dt.a[0] in ("np.bool_", "np.intp"))) or (dt.op == "const" and isinstance(dt.a[0], str) and dt.a[0][:1] in ("i", "u", "b"))):
            return args[0]
        # an integer / Boolean dtype changes the values (truncation): the call stays, and it may return its argument
    if name in COMMUTATIVE_CALLS and len(args) == 2 and not kw:
        if args[1].id < args[0].id:
            args = (args[1], args[0])
    kw = tuple(sorted(kw, key=lambda p: p[0]))
    return mk("call", fn, tuple(args), kw)


def _format_as_fstring(template, args, kw):
    """"a{}b{:d}".format(x, y) is f"a{x}b{y:d}": the literal pieces and the interpolated values in order (format
    specifications are not part of the term in either spelling).  None for templates this does not cover."""
    import string

    try:
        pieces = list(string.Formatter().parse(template))
    except ValueError:
        return None
    parts = []
    auto = 0
    for lit, field, spec, conv in pieces:
        if lit:
            parts.append(const(lit))
        if field is None:
            continue
        if spec and "{" in spec:
            return None
        if field == "":
            if auto is None or auto >= len(args):
                return None
            parts.append(args[auto])
            auto += 1
        elif field.isdigit():
            if auto:
                return None
            auto = None
            if int(field) >= len(args):
                return None
            parts.append(args[int(field)])
        elif field.isidentifier() and field in kw:
            parts.append(kw[field])
        else:
            return None
    return mk("fstr", *parts)


def method_call(base, name, args=(), kw=()):
    if name == "reshape" and len(args) > 1 and not kw:
        args = (tup(list(args)),)  # x.reshape(a, b) is np.reshape(x, (a, b))
    if name in METHOD_ALIASES:
        return call(ext(METHOD_ALIASES[name]), (base,) + tuple(args), kw)
    if name == "format" and base.op == "const" and isinstance(base.a[0], str) and not any(a.op == "star" for a in args) and not any(k is None for k, _ in kw):
        f = _format_as_fstring(base.a[0], tuple(args), dict(kw))
        if f is not None:
            return f
    if name == "astype":
        return call(ext("astype"), (base,) + tuple(args), kw)
    if name == "copy" and not args:
        return call(ext("np.copy"), (base,), kw)
    return call(mk("meth", name), (base,) + tuple(args), kw)


def attr(base, name):
    if name == "__name__" and base.op in ("func", "localfunc"):
        return const(base.a[0].split(".")[-1])  # the name a function was defined under
    if name == "T":
        return call(ext("np.transpose"), (base,))
    return mk("attr", base, name)


def sub(base, idx):
    if base.op in ("tuple", "list") and idx.op == "const" and isinstance(idx.a[0], float) and not isinstance(idx.a[0], bool):
        k = int(idx.a[0])
        if base.op == "tuple" and -len(base.a) <= k < len(base.a):
            return base.a[k]
        if base.op == "list" and 0 <= k < len(base.a):
            return base.a[k]
    if base.op == "tuple" and idx.op == "slice" and all(z.op == "const" and (z.a[0] is None or (isinstance(z.a[0], float) and z.a[0] == int(z.a[0]))) for z in idx.a):
        lo, hi, st = [None if z.a[0] is None else int(z.a[0]) for z in idx.a]
        return mk("tuple", *base.a[lo:hi:st])
    # x[slice(a, b)] is x[a:b]; x[slice(None)] is x[:]
    if idx.op == "call" and callee_name(idx.a[0]) == "builtins.slice" and 1 <= len(idx.a[1]) <= 3 and not idx.a[2]:
        a_ = list(idx.a[1])
        if len(a_) == 1:
            a_ = [const(None), a_[0], const(None)]
        elif len(a_) == 2:
            a_ = a_ + [const(None)]
        idx = mk("slice", *a_)
        if all(x.op == "const" and x.a[0] is None for x in a_):
            return base  # x[slice(None)]: everything
    # [(E0, E1) for x in it][i][k] is [Ek for x in it][i]: the component of one element of a list of tuples
    if base.op == "sub" and base.a[0].op == "comp" and base.a[0].a[0] == "list" and base.a[0].a[1].op == "tuple" and idx.op == "const" and isinstance(idx.a[0], float) and not isinstance(idx.a[0], bool) and 0 <= idx.a[0] < len(base.a[0].a[1].a) and not any(z.op == "star" for z in base.a[0].a[1].a):
        c = base.a[0]
        return sub(mk("comp", "list", c.a[1].a[int(idx.a[0])], *c.a[2:]), base.a[1])
    # x[:, k][i] is x[i, k]
    if base.op == "sub" and base.a[1].op == "tuple" and len(base.a[1].a) == 2 and _is_full_slice(base.a[1].a[0]) and base.a[1].a[1].op == "const" and isinstance(base.a[1].a[1].a[0], float) and idx.op == "const" and isinstance(idx.a[0], float) and not isinstance(idx.a[0], bool):
        return mk("sub", base.a[0], mk("tuple", idx, base.a[1].a[1]))
    # an element-wise function of a shape tuple, indexed: np.log2(x.shape)[k] is np.log2(x.shape[k])
    if base.op == "call" and callee_name(base.a[0]) in ("np.log2", "np.log", "np.sqrt", "np.abs", "np.exp", "np.log10") and len(base.a[1]) == 1 and not base.a[2] and base.a[1][0].op == "attr" and base.a[1][0].a[1] == "shape" and idx.op == "const" and isinstance(idx.a[0], float):
        return call(base.a[0], (sub(base.a[1][0], idx),))
    # np.transpose(np.array([A, B]))[:, k] is the k-th stacked row (A or B) when these are arrays themselves
    if base.op == "call" and callee_name(base.a[0]) == "np.transpose" and len(base.a[1]) == 1 and not base.a[2] and idx.op == "tuple" and len(idx.a) == 2 and _is_full_slice(idx.a[0]) and idx.a[1].op == "const" and isinstance(idx.a[1].a[0], float) and not isinstance(idx.a[1].a[0], bool):
        inner = base.a[1][0]
        if inner.op == "call" and callee_name(inner.a[0]) in ("np.array", "np.asarray", "np.vstack") and len(inner.a[1]) == 1 and not inner.a[2] and inner.a[1][0].op in ("list", "tuple"):
            rows = inner.a[1][0].a
            k = int(idx.a[1].a[0])
            if 0 <= k < len(rows) and all(z.op in ("sub", "call", "param", "loop", "upd") and not (z.op == "sub" and z.a[1].op == "const") for z in rows):
                return rows[k]
    # x[np.where(M)[0], np.where(M)[1]] is x[M] (the marked cells in row-major order)
    if idx.op == "tuple" and len(idx.a) == 2 and all(z.op == "sub" and z.a[1].op == "const" for z in idx.a):
        w0, w1 = idx.a[0].a[0], idx.a[1].a[0]
        if w0 is w1 and w0.op == "call" and callee_name(w0.a[0]) == "np.where" and len(w0.a[1]) == 1 and not w0.a[2] and idx.a[0].a[1].a[0] == 0 and idx.a[1].a[1].a[0] == 1 and not isinstance(idx.a[0].a[1].a[0], bool):
            return sub(base, _as_mask(w0.a[1][0]))
    # np.argwhere(m)[i, k] is np.where(m)[k][i]
    if base.op == "call" and callee_name(base.a[0]) == "np.argwhere" and len(base.a[1]) == 1 and idx.op == "tuple" and len(idx.a) == 2 and all(z.op == "const" for z in idx.a):
        return sub(sub(call(ext("np.where"), base.a[1]), idx.a[1]), idx.a[0])
    # x.shape[0] is len(x)
    if base.op == "attr" and base.a[1] == "shape" and idx.op == "const" and idx.a[0] == 0 and not isinstance(idx.a[0], bool) and not (base.a[0].op == "call" and (callee_name(base.a[0].a[0]) or "").endswith(".outer")):
        return call(mk("builtin", "len"), (base.a[0],))
    # np.<op>.outer(a, b).shape[k] is the length of a (k = 0) / of b (k = 1)
    if base.op == "attr" and base.a[1] == "shape" and idx.op == "const" and idx.a[0] in (0, 1) and not isinstance(idx.a[0], bool):
        o = base.a[0]
        if o.op == "call" and (callee_name(o.a[0]) or "").endswith(".outer") and len(o.a[1]) == 2:
            return call(mk("builtin", "len"), (o.a[1][int(idx.a[0])],))
    # {True: a, False: b}[bool(c)] is a if c else b
    if base.op == "dict" and len(base.a) == 2 and idx.op == "call" and callee_name(idx.a[0]) == "builtins.bool" and len(idx.a[1]) == 1:
        ks = {}
        for kv in base.a:
            if kv.a[0].op == "const" and isinstance(kv.a[0].a[0], bool):
                ks[kv.a[0].a[0]] = kv.a[1]
        if set(ks) == {True, False}:
            return ite(idx.a[1][0], ks[True], ks[False])
    # (a, b)[bool(c)] is b if c else a   (False is 0, True is 1)
    if base.op in ("tuple", "list") and len(base.a) == 2 and not any(z.op == "star" for z in base.a) and idx.op == "call" and callee_name(idx.a[0]) == "builtins.bool" and len(idx.a[1]) == 1:
        return ite(idx.a[1][0], base.a[1], base.a[0])
    # a conditionally chosen index or a conditionally chosen tuple: the choice moves outwards
    if idx.op == "ite" and all(z.op in ("slice", "call", "const") for z in (idx.a[1], idx.a[2])) and any(z.op == "slice" or (z.op == "call" and callee_name(z.a[0]) == "builtins.slice") for z in (idx.a[1], idx.a[2])):
        return ite(idx.a[0], sub(base, idx.a[1]), sub(base, idx.a[2]))
    if base.op == "ite" and idx.op == "const" and isinstance(idx.a[0], float) and idx.a[0] >= 0 and _tuple_tree(base, int(idx.a[0])):
        return ite(base.a[0], sub(base.a[1], idx), sub(base.a[2], idx))
    if idx.op == "slice" and all(x.op == "const" and x.a[0] is None for x in idx.a) and base.op in ("call", "param", "sub", "ite"):
        return mk("sub", base, idx)
    return mk("sub", base, idx)


def _tuple_tree(t, k, depth=0):
    """every alternative of the conditional tree is a display with a k-th component"""
    if depth > 8:
        return False
    if t.op in ("tuple", "list"):
        return 0 <= k < len(t.a)
    if t.op == "ite":
        return _tuple_tree(t.a[1], k, depth + 1) and _tuple_tree(t.a[2], k, depth + 1)
    return False


def _indexable_comp(t):
    """[E(x) for x in X] / map(f, X) over something that can be indexed (a parameter, an attribute such as .shape)"""
    return t.op == "comp" and t.a[0] in ("list", "gen") and len(t.a[2]) == 1 and not t.a[3] and t.a[2][0].op in ("attr", "param", "tuple", "list")


def proj(t, k):
    """k-th component of an unpacked value."""
    if t.op in ("tuple", "list") and 0 <= k < len(t.a):
        return t.a[k]
    if t.op == "ite" and _tuple_tree(t, k):
        return ite(t.a[0], proj(t.a[1], k), proj(t.a[2], k))
    if t.op == "ite" and all(_tuple_tree(z, k) or _indexable_comp(z) for z in (t.a[1], t.a[2])):
        # a, b = (x, y) if c else map(f, pair): every alternative has a k-th component
        return ite(t.a[0], proj(t.a[1], k), proj(t.a[2], k))
    if t.op == "comp" and t.a[0] in ("list", "gen") and len(t.a[2]) == 1 and not t.a[3] and t.a[2][0].op not in ("call",) and k >= 0:
        # [E(x) for x in X][k] is E(X[k]) for an indexable X
        X, cid = t.a[2][0], t.a[4]
        el = mk("iter", X, cid)
        return rebuild(t.a[1], lambda z: sub(X, const(k)) if z is el else None)
    return sub(t, const(k))


def tup(items):
    return mk("tuple", *items)


def lst(items):
    return mk("list", *items)


def upd(base, how, key, val):
    # out = np.empty(len(A) + len(B)); out[:len(A)] = A; out[len(A):] = B   is   np.concatenate((A, B))
    if how == "setitem" and key.op == "slice" and base.op == "upd" and base.a[1] == "setitem" and base.a[2].op == "slice":
        E, k1, A, B = base.a[0], base.a[2], base.a[3], val
        if E.op == "call" and callee_name(E.a[0]) in ("np.empty", "np.zeros") and E.a[1] and is_const(k1.a[0], None) and is_const(k1.a[2], None) and is_const(key.a[1], None) and is_const(key.a[2], None) and k1.a[1] is key.a[0]:
            n = k1.a[1]
            la = call(mk("builtin", "len"), (A,))
            lb = call(mk("builtin", "len"), (B,))
            size = E.a[1][0]
            if n is la and size.op == "bin" and size.a[0] == "+" and {size.a[1].id, size.a[2].id} == {la.id, lb.id}:
                dts = [v_ for k_, v_ in E.a[2] if k_ == "dtype"] + list(E.a[1][1:2])
                # the buffer's dtype is that of the pieces (or left to default for float pieces): same values
                if all(d_.op == "attr" and d_.a[1] == "dtype" for d_ in dts):
                    return call(ext("np.concatenate"), (tup([A, B]),))
    return mk("upd", base, how, key, val)


_VIEWISH = {"np.ravel", "np.reshape", "np.squeeze", "np.transpose", "np.atleast_1d", "np.atleast_2d", "np.atleast_3d", "np.real", "np.imag", "np.expand_dims", "np.swapaxes", "np.broadcast_to", "np.asanyarray", "np.asarray", "np.ascontiguousarray", "np.moveaxis", "np.rollaxis", "np.diagonal", "np.split", "np.array_split", "np.hsplit", "np.vsplit", "np.flipud", "np.fliplr", "np.flip", "np.rot90", "np.view", "np.array", "astype", "np.nan_to_num"}


def _certainly_1d(t, depth=0):
    """the value is a one-dimensional array whatever the input: a flattened array, a range, a slice of one"""
    if depth > 10:
        return False
    if t.op == "call" and t.a[0].op == "ext":
        n = t.a[0].a[0]
        if n in ("np.ravel", "np.flatten", "np.arange", "np.flatnonzero", "np.linspace"):
            return True
        if n in ("np.unique",) and not t.a[2]:
            return True
        if n in ("np.concatenate",) and not t.a[2] and len(t.a[1]) == 1 and t.a[1][0].op in ("tuple", "list") and t.a[1][0].a:
            return all(_certainly_1d(z, depth + 1) for z in t.a[1][0].a)
        if n in ("np.abs", "np.sort", "np.copy", "np.cumsum", "astype", "np.asarray") and t.a[1]:
            return _certainly_1d(t.a[1][0], depth + 1)
    if t.op == "sub" and t.a[1].op == "slice":
        return _certainly_1d(t.a[0], depth + 1)
    return False


def _fresh_array(t):
    """the value is certainly an array nobody else holds (an arithmetic result, or what a numpy function that never
    returns a view of its argument computed): np.asarray(t, dtype=T) and t.astype(T) cannot be told apart"""
    if t.op in ("bin", "un", "cmp", "bool"):
        return True
    if t.op == "call" and t.a[0].op == "ext":
        n = t.a[0].a[0]
        return (n.startswith("np.") or n.startswith("scipy.")) and n not in _VIEWISH and ".lib." not in n
    return False


def callee_name(fn):
    if fn.op in ("func", "ext", "builtin"):
        return fn.a[0] if fn.op != "builtin" else "builtins." + fn.a[0]
    if fn.op == "meth":
        return "." + fn.a[0]
    if fn.op == "localfunc":
        return fn.a[0]
    return None


# ------------------------------------------------------------------ traversal


def children(t):
    out = []

    def rec(x):
        if isinstance(x, T):
            out.append(x)
        elif isinstance(x, tuple):
            for y in x:
                rec(y)

    for x in t.a:
        rec(x)
    return out


def walk(t, seen=None):
    """All distinct sub-terms (DAG walk)."""
    if seen is None:
        seen = set()
    stack = [t]
    while stack:
        x = stack.pop()
        if x.id in seen:
            continue
        seen.add(x.id)
        yield x
        stack.extend(children(x))


def params_of(t):
    return {x.a[0] for x in walk(t) if x.op == "param"}


def contains(t, pred):
    for x in walk(t):
        if pred(x):
            return True
    return False


def rebuild(t, f, memo=None):
    """Bottom-up rebuild through the smart constructors; ``f(node)`` may return a
    replacement for a leaf/sub-term (checked before descending) or None."""
    if memo is None:
        memo = {}

    def rb(x):
        if isinstance(x, T):
            return rec(x)
        if isinstance(x, tuple):
            return tuple(rb(y) for y in x)
        return x

    def rec(x):
        r = memo.get(x.id)
        if r is not None:
            return r
        r = f(x)
        if r is None:
            a = tuple(rb(y) for y in x.a)
            op = x.op
            if op == "bin":
                r = binop(a[0], a[1], a[2])
            elif op == "cmp":
                r = cmp(a[0], a[1], a[2])
            elif op == "un":
                r = unop(a[0], a[1])
            elif op == "call":
                r = call(a[0], a[1], a[2])
            elif op == "bool":
                r = boolop(a[0], a[1:])
            elif op == "ite":
                r = ite(a[0], a[1], a[2])
            elif op == "sub":
                r = sub(a[0], a[1])
            else:
                r = mk(op, *a)
        memo[x.id] = r
        return r

    return rec(t)


# -------------------------------------------------------------------- printing


def show(t, depth=6):
    if not isinstance(t, T):
        if isinstance(t, tuple):
            return "(" + ", ".join(show(x, depth) for x in t) + ")"
        return repr(t)
    if depth <= 0:
        return "…"
    op, a = t.op, t.a
    d = depth - 1
    if op == "param":
        return a[0]
    if op == "const":
        v = a[0]
        if isinstance(v, float) and v == int(v):
            return str(int(v)) if abs(v) < 1e15 else repr(v)
        return repr(v)
    if op in ("glob", "func", "ext", "builtin", "mod", "localfunc", "closure"):
        return str(a[0])
    if op == "meth":
        return "." + a[0]
    if op == "bin":
        return "(%s %s %s)" % (show(a[1], d), a[0], show(a[2], d))
    if op == "cmp":
        return "(%s %s %s)" % (show(a[1], d), a[0], show(a[2], d))
    if op == "un":
        return "(%s %s)" % (a[0], show(a[1], d))
    if op == "bool":
        return "(" + (" %s " % a[0]).join(show(x, d) for x in a[1:]) + ")"
    if op == "call":
        parts = [show(x, d) for x in a[1]] + [
            "%s=%s" % (k, show(v, d)) for k, v in a[2]
        ]
        return "%s(%s)" % (show(a[0], d), ", ".join(parts))
    if op == "attr":
        return "%s.%s" % (show(a[0], d), a[1])
    if op == "sub":
        return "%s[%s]" % (show(a[0], d), show(a[1], d))
    if op == "slice":
        return ":".join("" if (x.op == "const" and x.a[0] is None) else show(x, d) for x in a)
    if op == "tuple":
        return "(" + ", ".join(show(x, d) for x in a) + ")"
    if op == "list":
        return "[" + ", ".join(show(x, d) for x in a) + "]"
    if op == "ite":
        return "ite(%s, %s, %s)" % (show(a[0], d), show(a[1], d), show(a[2], d))
    if op == "iter":
        return "each(%s)" % show(a[0], d)
    if op == "upd":
        return "upd(%s; %s %s := %s)" % (
            show(a[0], d),
            a[1],
            show(a[2], d),
            show(a[3], d),
        )
    return "%s(%s)" % (op, ", ".join(show(x, d) for x in a))
