#!/bin/sh
# usage: fallsweep.sh file line   -> replace the first 0.0 (or trailing 0) on that line by 1.0 in a private worktree, run all 20 checks
f=$1; l=$2; wt=/tmp/fs/wt_$(echo $f | tr '/.' '__')_$l
git -C /repo worktree remove --force $wt 2>/dev/null; git -C /repo worktree add --detach $wt HEAD -q
sed -i "${l}s/0\.0/1.0/g; ${l}s/return 0\$/return 1/" $wt/$f
res=""
for i in 01 02 03 04 05 06 07 08 09 10 11 12 13 14 15 16 17 18 19 20; do
  (cd /verif && ./vcheck C$i --repo $wt --no-evidence >/dev/null 2>&1); rc=$?
  [ $rc -ne 0 ] && res="$res C$i=$rc"
done
echo "$f:$l [$(sed -n ${l}p /repo/$f | sed 's/^ *//')] ->$res"
git -C /repo worktree remove --force $wt
