#!/bin/sh
# usage: firstpass.sh ID n  -> prints which of the 20 checks exit 1 / 2
id=$1; n=$2
wt=/tmp/fp/$id-$n
git -C /repo worktree remove --force $wt 2>/dev/null
git -C /repo worktree add --detach $wt HEAD -q
git -C $wt apply --whitespace=nowarn /tmp/seed/$id.out/patch_$n.diff || { echo "$id-$n APPLY-FAILED"; exit; }
res=""
for i in 01 02 03 04 05 06 07 08 09 10 11 12 13 14 15 16 17 18 19 20; do
  (cd /verif && ./vcheck C$i --repo $wt --no-evidence >/tmp/fp/$id-$n.C$i.log 2>&1); rc=$?
  [ $rc -ne 0 ] && res="$res C$i=$rc"
done
echo "$id-$n:$res"
git -C /repo worktree remove --force $wt
