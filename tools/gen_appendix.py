#!/usr/bin/env python3
"""Emit markdown: per-property rule table (from evidence/*.json) and seeded-change table (from seeded/*/meta.json)."""
import glob
import importlib
import json
import os
import sys

here = os.path.dirname(os.path.dirname(os.path.abspath(__file__)))
sys.path.insert(0, here)
out = []
out.append("### D.1 Rules as built (obligations measured on the reference tree by the last quick run)\n")
out.append("| property | rule | floor | obligations | what a violation names |")
out.append("|---|---|---|---|---|")
for i in range(1, 21):
    pid = "C%02d" % i
    mod = importlib.import_module("sa.rules.%s" % pid.lower())
    ev = json.load(open(os.path.join(here, "evidence", pid + ".json")))
    per = ev["coverage"]["per_rule"]
    seen = set()
    floors = {}
    for r, fl, fn in mod.RULES:
        floors.setdefault(r, 0)
        floors[r] += fl
    for r in per:
        if r == "PM-DYN":
            continue
        doc = ""
        for rr, fl, fn in mod.RULES:
            if rr == r and fn.__doc__:
                doc = fn.__doc__.strip().split("\n")[0]
        out.append("| %s | %s | %s | %d | %s |" % (pid, r, floors.get(r, "shared"), per[r]["examined"], doc[:140]))
out.append("")
out.append("### D.2 Seeded breaking changes (independent sub-agents; confirmed: demo passes clean / fails patched, baseline suite unchanged)\n")
out.append("| seed | what was changed | needs to manifest | checks that fire (exit 1) |")
out.append("|---|---|---|---|")
for d in sorted(glob.glob(os.path.join(here, "seeded", "*", "meta.json"))):
    m = json.load(open(d))
    name = os.path.basename(os.path.dirname(d))
    fired = []
    for p, v in sorted(m["checks_that_fire"].items()):
        if v["exit"] == 1:
            rules = sorted({f.split(" ")[0] for f in v["findings"]})
            fired.append("%s (%s)" % (p, ", ".join(rules)[:90]))
    what = (m.get("what_changed") or "").replace("|", "/").replace("\n", " ")[:170]
    need = (m.get("needs_to_manifest") or "").replace("|", "/").replace("\n", " ")[:130]
    out.append("| %s | %s | %s | %s |" % (name, what, need, "; ".join(fired) or "NONE"))
print("\n".join(out))
