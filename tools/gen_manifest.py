#!/usr/bin/env python3
"""Regenerate MANIFEST.json from the rule modules that exist (one source of truth)."""
import importlib
import json
import os
import sys

here = os.path.dirname(os.path.dirname(os.path.abspath(__file__)))
sys.path.insert(0, here)

NOTES = {
    "C01": ("narrow-medium", "declined: numeric range of the closed-form formulas (P-score, continuity, information gain, ARI/AMI <= 1, NCE, overlap ratio, hierarchy scores) - value-level, needs an execution-based oracle; five genuine violations of the decided clauses (Cemgil and pattern standard precision can exceed 1; segment.pairwise / rand_index return NaN on pair-less inputs) are listed in known_findings.json and reported as KNOWN-FINDING"),
    "C02": ("narrow", "declined: that each formula attains its optimum when both sides coincide; that the matcher is maximum; non-degeneracy side conditions"),
    "C03": ("broad", "declined: numerical equality of each entry with the direct call (follows from the decided clauses plus purity, not re-argued)"),
    "C04": ("narrow", "declined: agreement of Cemgil/Goto/P-score/continuity/information gain, melody measures, multipitch counting, alignment statistics and pattern scores with their published formulas to 1e-9"),
    "C05": ("medium", "declined: that util._bipartite_match (Hopcroft-Karp) uses each vertex once and is maximum; order-independence of the matching size"),
    "C06": ("medium-broad", "declined: AMI's expected-MI triple loop; equal-frame-count precondition (axiom from validate_structure); order-independence of matching size"),
    "C07": ("medium-broad", "declined: value inequalities (continuous <= total, raw <= chroma, Cemgil <= best level) as numbers"),
    "C08": ("medium", "declined: order-independence of maximum-matching size; exactness on the time lattice"),
    "C09": ("medium", "declined: rounding caveats near the tolerance, effects of resampling"),
    "C10": ("broad", "declined: value-level round trip encode(join(split(l))) == encode(l); degree arithmetic on arbitrary alterations"),
    "C11": ("broad", "nothing declined except the table facts the rules read (QUALITIES literals)"),
    "C12": ("medium", "declined: that sampled/merged labels are actually unchanged by a cut (C13's value-level content)"),
    "C13": ("narrow", "declined: labels per instant, duration conservation, inverse property - need values"),
    "C14": ("medium-broad", "declined: absence of exceptions for all valid inputs (NumPy/SciPy raising on a shape no rule models); two genuine violations of the decided clauses (melody.to_cent_voicing reads ref_time[0] / est_time[0] of a possibly empty array: melody.evaluate raises IndexError for an empty side) are listed in known_findings.json and reported as KNOWN-FINDING"),
    "C15": ("broad", "declined: bit-identity of floating-point results inside NumPy/SciPy (BLAS threading, FFT planning)"),
    "C16": ("narrow", "declined: the numeric values of all clustering-index formulas"),
    "C17": ("narrow", "declined: inversion counting, window slicing arithmetic, frame rounding"),
    "C18": ("medium", "declined: TP <= min per frame and chroma >= raw as values (matcher facts)"),
    "C19": ("medium", "declined: scale invariance, permutation equivariance, 'very high SDR' - numerical linear algebra"),
    "C20": ("medium", "declined: bit-identity of parsed floats (CPython float()), Unicode handling"),
}

props = [json.loads(l) for l in open(os.path.join(here, "properties.jsonl"))]
checks = []
na = []
engines_serves = []
for p in props:
    pid = p["id"]
    try:
        mod = importlib.import_module("sa.rules.%s" % pid.lower())
    except ImportError:
        na.append({"property_id": pid, "reason": "check not built yet (static rules planned in DESIGN.md section 4)"})
        continue
    engines_serves.append(pid)
    scope, declined = NOTES[pid]
    rules = ", ".join(dict.fromkeys(r for r, _, _ in mod.RULES))
    checks.append(
        {
            "property_id": pid,
            "quick_cmd": "./vcheck %s --tier quick" % pid,
            "thorough_cmd": "./vcheck %s --tier thorough" % pid,
            "evidence_file": "evidence/%s.json" % pid,
            "replay_cmd_template": "./vcheck %s --replay {path}" % pid,
            "engine": "sa",
            "level_claimed": {
                "category": "other",
                "text": "Static analysis of /repo's current source (no execution of mir_eval): decides the structural clauses of %s named by rules %s on every function, path and call site enumerated; claim is %s. It does NOT decide the behaviour as a whole - %s." % (pid, rules, scope, declined),
                "design_ref": "DESIGN.md section 4, %s" % pid,
            },
            "level_note": "Trusted base: CPython ast/re._parser; the engine's NumPy/SciPy library model (copy/view/in-place tables, axis semantics); repository conventions (ref*/est* prefixes, numpydoc, filter_kwargs as the only keyword router); reference tables in sa/oracles.py. " + declined,
            "technique": getattr(mod, "TECHNIQUE", "static analysis: ast-based symbolic summaries (provenance terms + path conditions), dataflow rules"),
        }
    )

m = {
    "version": 1,
    "setup_cmd": "/venv/bin/python -m compileall -q sa >/dev/null 2>&1; PYTHONDONTWRITEBYTECODE=1 /venv/bin/python -m sa.selfcheck",
    "hooks": {
        "guard": "MIR_EVAL_VERIF",
        "enable": "no hooks: the checks only read /repo's source text; MIR_EVAL_VERIF is reserved and unused",
        "baseline_off_cmd": "cd /repo && /venv/bin/python -m pytest -ra -q -p no:cacheprovider --timeout=900 --continue-on-collection-errors",
        "source_commits": [],
        "add_only": True,
    },
    "engines": [
        {
            "name": "sa",
            "path": "sa/",
            "serves_properties": engines_serves,
            "kind_free_text": "custom static analyser over Python ast: program model, syntax-directed symbolic summaries (hash-consed provenance terms, path conditions, mutation/call/division sites), alias/MOD fixpoint, arity lattice, regex->automaton equivalence, constant folding of tables; rule families per property",
        }
    ],
    "checks": checks,
    "notes": "Technique family: static analysis only. Exit codes: 0 pass, 1 VIOLATION, 2 ANALYSIS-ERROR (anchor lost; no VIOLATION line). Genuine defects found are in known_findings.json (all repaired by fix: commits in /repo).",
    "not_applicable": na,
}
json.dump(m, open(os.path.join(here, "MANIFEST.json"), "w"), indent=1)
print("checks:", [c["property_id"] for c in checks], "not_applicable:", len(na))
