#!/usr/bin/env python3
"""Confirm and record seeded breaking changes under /verif/seeded/<prop>-<n>/.
Uses a scratch worktree of /repo (never /repo itself): applies the patch there, runs the baseline suite,
the demonstration (clean and patched) and every registered check with --repo <worktree>."""
import concurrent.futures as cf
import json
import os
import shutil
import subprocess
import sys

VERIF = "/verif"
WT = "/tmp/seedrun/wt"


def sh(cmd, cwd=None, timeout=1800, env=None):
    e = dict(os.environ)
    if env:
        e.update(env)
    p = subprocess.run(cmd, shell=True, cwd=cwd, stdout=subprocess.PIPE, stderr=subprocess.STDOUT, timeout=timeout, env=e)
    return p.returncode, p.stdout.decode("utf-8", "replace")


def main():
    props = sys.argv[1:]
    sh("git -C /repo worktree remove --force %s" % WT)
    os.makedirs(os.path.dirname(WT), exist_ok=True)
    rc, out = sh("git -C /repo worktree add --detach %s HEAD" % WT)
    assert rc == 0, out
    head = sh("git -C /repo rev-parse --short HEAD")[1].strip()
    man = json.load(open(os.path.join(VERIF, "MANIFEST.json")))
    claimed = [c["property_id"] for c in man["checks"]]
    try:
        jobs = []  # (property, dest number, patch, demo, summary entry, round)
        for ident in props:
            if ident == "--reconfirm":
                for dname in sorted(os.listdir(os.path.join(VERIF, "seeded"))):
                    d = os.path.join(VERIF, "seeded", dname)
                    if os.path.isdir(d):
                        old = json.load(open(os.path.join(d, "meta.json")))
                        jobs.append((dname[:3], int(dname.split("-")[1]), os.path.join(d, "patch.diff"), os.path.join(d, "demo.py"), old, old.get("round", 1)))
                continue
            prop = ident[:3]
            rnd = {"b": 2, "c": 3, "d": 4, "e": 5, "f": 6, "g": 7, "h": 8, "i": 9, "j": 10}.get(ident[3:4], 1)
            outdir = "/tmp/seed/%s.out" % ident
            try:
                summ = {d["n"]: d for d in json.load(open(os.path.join(outdir, "summary.json")))}
            except Exception:
                summ = {}
            for n in (1, 2, 3, 4):
                patch = os.path.join(outdir, "patch_%d.diff" % n)
                demo = os.path.join(outdir, "demo_%d.py" % n)
                if os.path.exists(patch) and os.path.exists(demo):
                    jobs.append((prop, {1: 0, 2: 3, 3: 7, 4: 11, 5: 15, 6: 19, 7: 23, 8: 25, 9: 27, 10: 29}[rnd] + n, patch, demo, summ.get(n, {}), rnd))
        for prop, num, patch, demo, summ_n, rnd in jobs:
            sh("git -C %s checkout -- ." % WT)
            env = {"PYTHONPATH": WT}
            rc_clean, _ = sh("/venv/bin/python %s" % demo, cwd="/tmp", env=env)
            rc, out = sh("git -C %s apply --whitespace=nowarn %s" % (WT, patch))
            if rc != 0:
                print(prop, num, "patch does not apply to HEAD:", out[-200:])
                continue
            rc_pat, out_pat = sh("/venv/bin/python %s" % demo, cwd="/tmp", env=env)
            rc_s, out_s = sh("/venv/bin/python -m pytest -q -p no:cacheprovider tests/test_util.py tests/test_input_output.py tests/test_sonify.py tests/test_hierarchy.py 2>&1 | tail -1", cwd=WT, env=env)
            sh("git -C %s checkout -- coverage.xml" % WT)

            def one(p):
                rc, out = sh("./vcheck %s --repo %s --no-evidence" % (p, WT), cwd=VERIF)
                return p, rc, out

            fired = {}
            with cf.ThreadPoolExecutor(10) as ex:
                for p, rc, out in ex.map(one, claimed):
                    if rc != 0:
                        fired[p] = {"exit": rc, "findings": sorted({l.strip().split(" at ")[0].replace("rule=", "") for l in out.split("\n") if l.startswith("  rule=")})[:6]}
            sh("git -C %s checkout -- ." % WT)
            ok = rc_clean == 0 and rc_pat != 0 and "65 passed" in out_s and "4 failed" in out_s
            d = os.path.join(VERIF, "seeded", "%s-%d" % (prop, num))
            meta = {
                "property": prop,
                "round": rnd,
                "base_commit": head,
                "files": summ_n.get("files"),
                "what_changed": summ_n.get("what_changed"),
                "why_it_breaks_the_property": summ_n.get("why_it_breaks_the_property"),
                "needs_to_manifest": summ_n.get("needs_to_manifest"),
                "confirmed": {
                    "how": "scratch worktree of /repo at %s: demo on clean tree, patch applied, demo again, baseline suite (tests/test_util.py test_input_output.py test_sonify.py test_hierarchy.py), then every registered check with --repo <worktree> --no-evidence" % head,
                    "demo_clean_exit": rc_clean,
                    "demo_patched_exit": rc_pat,
                    "demo_patched_last_line": out_pat.strip().split("\n")[-1][:300],
                    "suite_with_patch": out_s.strip()[-100:],
                },
                "checks_that_fire": fired,
                "caught_by_target_property": prop in fired and fired[prop]["exit"] == 1,
                "caught_by_any": any(v["exit"] == 1 for v in fired.values()),
            }
            print(prop, num, "confirmed" if ok else "NOT-CONFIRMED clean=%s patched=%s suite=%s" % (rc_clean, rc_pat, out_s.strip()[-60:]), "target" if meta["caught_by_target_property"] else "", sorted(fired))
            sys.stdout.flush()
            if ok:
                os.makedirs(d, exist_ok=True)
                if os.path.abspath(patch) != os.path.abspath(os.path.join(d, "patch.diff")):
                    shutil.copy(patch, os.path.join(d, "patch.diff"))
                    shutil.copy(demo, os.path.join(d, "demo.py"))
                json.dump(meta, open(os.path.join(d, "meta.json"), "w"), indent=1)
            elif os.path.abspath(patch) == os.path.abspath(os.path.join(d, "patch.diff")):
                print("   (existing seed %s-%d no longer confirmed on this HEAD)" % (prop, num))
    finally:
        sh("git -C /repo worktree remove --force %s" % WT)


if __name__ == "__main__":
    main()
