#!/usr/bin/env python3
"""Confirm and record seeded breaking changes under /verif/seeded/<prop>-<n>/.
Uses a scratch worktree of /repo (never /repo itself): applies the patch there, runs the baseline suite,
the demonstration (clean and patched) and every registered check with --repo <worktree>."""
import json
import os
import shutil
import subprocess
import sys

VERIF = "/verif"
WT = "/tmp/seedrun/wt"


def sh(cmd, cwd=None, timeout=1800, env=None):
    e = dict(os.environ)
    if env:
        e.update(env)
    p = subprocess.run(cmd, shell=True, cwd=cwd, stdout=subprocess.PIPE, stderr=subprocess.STDOUT, timeout=timeout, env=e)
    return p.returncode, p.stdout.decode("utf-8", "replace")


def main():
    props = sys.argv[1:]
    sh("git -C /repo worktree remove --force %s" % WT)
    os.makedirs(os.path.dirname(WT), exist_ok=True)
    rc, out = sh("git -C /repo worktree add --detach %s HEAD" % WT)
    assert rc == 0, out
    head = sh("git -C /repo rev-parse --short HEAD")[1].strip()
    man = json.load(open(os.path.join(VERIF, "MANIFEST.json")))
    claimed = [c["property_id"] for c in man["checks"]]
    try:
        for prop in props:
            outdir = "/tmp/seed/%s.out" % prop
            try:
                summ = {d["n"]: d for d in json.load(open(os.path.join(outdir, "summary.json")))}
            except Exception:
                summ = {}
            for n in (1, 2, 3):
                patch = os.path.join(outdir, "patch_%d.diff" % n)
                demo = os.path.join(outdir, "demo_%d.py" % n)
                if not (os.path.exists(patch) and os.path.exists(demo)):
                    continue
                sh("git -C %s checkout -- ." % WT)
                env = {"PYTHONPATH": WT}
                rc_clean, _ = sh("/venv/bin/python %s" % demo, cwd="/tmp", env=env)
                rc, out = sh("git -C %s apply --whitespace=nowarn %s" % (WT, patch))
                if rc != 0:
                    print(prop, n, "patch does not apply to HEAD:", out[-200:])
                    continue
                rc_pat, out_pat = sh("/venv/bin/python %s" % demo, cwd="/tmp", env=env)
                rc_s, out_s = sh("/venv/bin/python -m pytest -q -p no:cacheprovider tests/test_util.py tests/test_input_output.py tests/test_sonify.py tests/test_hierarchy.py 2>&1 | tail -1", cwd=WT, env=env)
                sh("git -C %s checkout -- coverage.xml" % WT)
                fired = {}
                for p in claimed:
                    rc, out = sh("./vcheck %s --repo %s" % (p, WT), cwd=VERIF)
                    if rc != 0:
                        fired[p] = {"exit": rc, "findings": sorted({l.strip().split(" at ")[0].replace("rule=", "") for l in out.split("\n") if l.startswith("  rule=")})[:6]}
                sh("git -C %s checkout -- ." % WT)
                ok = rc_clean == 0 and rc_pat != 0 and "65 passed" in out_s and "4 failed" in out_s
                d = os.path.join(VERIF, "seeded", "%s-%d" % (prop, n))
                meta = {
                    "property": prop,
                    "base_commit": head,
                    "files": summ.get(n, {}).get("files"),
                    "what_changed": summ.get(n, {}).get("what_changed"),
                    "why_it_breaks_the_property": summ.get(n, {}).get("why_it_breaks_the_property"),
                    "needs_to_manifest": summ.get(n, {}).get("needs_to_manifest"),
                    "confirmed": {
                        "how": "scratch worktree of /repo at %s: demo on clean tree, patch applied, demo again, baseline suite (tests/test_util.py test_input_output.py test_sonify.py test_hierarchy.py), then every registered check with --repo <worktree>; the same patches were also applied to /repo itself with git apply / git checkout -- . and the checks run there" % head,
                        "demo_clean_exit": rc_clean,
                        "demo_patched_exit": rc_pat,
                        "demo_patched_last_line": out_pat.strip().split("\n")[-1][:300],
                        "suite_with_patch": out_s.strip()[-100:],
                    },
                    "checks_that_fire": fired,
                    "caught_by_target_property": prop in fired and fired[prop]["exit"] == 1,
                    "caught_by_any": any(v["exit"] == 1 for v in fired.values()),
                }
                print(prop, n, "confirmed" if ok else "NOT-CONFIRMED", "target" if meta["caught_by_target_property"] else "", sorted(fired))
                if ok:
                    os.makedirs(d, exist_ok=True)
                    shutil.copy(patch, os.path.join(d, "patch.diff"))
                    shutil.copy(demo, os.path.join(d, "demo.py"))
                    json.dump(meta, open(os.path.join(d, "meta.json"), "w"), indent=1)
    finally:
        sh("git -C /repo worktree remove --force %s" % WT)


if __name__ == "__main__":
    main()
