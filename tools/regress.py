#!/usr/bin/env python3
"""Static regression over the recorded corpora, in scratch worktrees of /repo (never /repo itself):
   seeded/<Cnn>-<k>/patch.diff   -> the target property's check must exit 1 (VIOLATION)
   refactors/<id>/patch.diff     -> all 20 checks must exit 0
Usage: regress.py [seeds] [refactors] [-j N] [--only PREFIX]"""
import concurrent.futures as cf
import json
import os
import subprocess
import sys
import threading

VERIF = "/verif"
PROPS = ["C%02d" % i for i in range(1, 21)]
_local = threading.local()
_lock = threading.Lock()
_wts = []


def sh(cmd, cwd=None, timeout=900):
    p = subprocess.run(cmd, shell=True, cwd=cwd, stdout=subprocess.PIPE, stderr=subprocess.STDOUT, timeout=timeout)
    return p.returncode, p.stdout.decode("utf-8", "replace")


def wt():
    if not hasattr(_local, "wt"):
        with _lock:
            path = "/tmp/regress/wt%d" % len(_wts)
            _wts.append(path)
            # git's worktree bookkeeping is not safe against concurrent `worktree add`
            sh("git -C /repo worktree remove --force %s" % path)
            os.makedirs("/tmp/regress", exist_ok=True)
            rc, out = sh("git -C /repo worktree add --detach %s HEAD" % path)
            if rc != 0:
                sh("git -C /repo worktree prune")
                rc, out = sh("git -C /repo worktree add --detach %s HEAD" % path)
            assert rc == 0, out
        _local.wt = path
    return _local.wt


def check(prop, tree):
    rc, out = sh("PYTHONDONTWRITEBYTECODE=1 /venv/bin/python -m sa.main %s --repo %s --no-evidence" % (prop, tree), cwd=VERIF)
    lines = [l.strip()[:200] for l in out.split("\n") if l.startswith("  rule=") or l.startswith("ANALYSIS-ERROR property")]
    return rc, lines


def run_seed(name):
    d = os.path.join(VERIF, "seeded", name)
    tree = wt()
    sh("git -C %s checkout -- ." % tree)
    rc, out = sh("git -C %s apply --whitespace=nowarn %s/patch.diff" % (tree, d))
    if rc != 0:
        return name, "APPLY-FAILED", [out[-150:]]
    try:
        rc, lines = check(name[:3], tree)
    finally:
        sh("git -C %s checkout -- ." % tree)
    try:
        unreadable = json.load(open(os.path.join(d, "meta.json"))).get("unreadable")
    except Exception:
        unreadable = None
    if unreadable:
        # a documented limit (DESIGN 6): the change rewrites the code into a shape the rules do not read; the check must
        # then refuse (exit 2) - it must not pass
        return name, "ok(unreadable)" if rc == 2 else {0: "MISSED", 1: "ok"}.get(rc, "rc%d" % rc), lines[:2]
    return name, {0: "MISSED", 1: "ok", 2: "ANALYSIS-ERROR"}.get(rc, "rc%d" % rc), lines[:2]


def refresh_seed(name):
    """re-run all 20 checks on a seeded change and rewrite `checks_that_fire` in its meta.json"""
    d = os.path.join(VERIF, "seeded", name)
    tree = wt()
    sh("git -C %s checkout -- ." % tree)
    rc, out = sh("git -C %s apply --whitespace=nowarn %s/patch.diff" % (tree, d))
    if rc != 0:
        return name, "APPLY-FAILED", [out[-150:]]
    fired = {}
    try:
        for p in PROPS:
            rc, lines = check(p, tree)
            if rc != 0:
                fired[p] = {"exit": rc, "findings": sorted({l.split(" at ")[0].replace("rule=", "") for l in lines if l.startswith("rule=")})[:6]}
    finally:
        sh("git -C %s checkout -- ." % tree)
    mp = os.path.join(d, "meta.json")
    m = json.load(open(mp))
    m["checks_that_fire"] = fired
    m["caught_by_target_property"] = name[:3] in fired and fired[name[:3]]["exit"] == 1
    m["caught_by_any"] = any(v["exit"] == 1 for v in fired.values())
    m["checks_refreshed_at_verif_commit"] = sh("git -C %s rev-parse --short HEAD" % VERIF)[1].strip()
    json.dump(m, open(mp, "w"), indent=1)
    return name, "ok" if m["caught_by_target_property"] else "MISSED", []


def run_refactor(name):
    d = os.path.join(VERIF, "refactors", name)
    tree = wt()
    sh("git -C %s checkout -- ." % tree)
    rc, out = sh("git -C %s apply --whitespace=nowarn %s/patch.diff" % (tree, d))
    if rc != 0:
        return name, "APPLY-FAILED", [out[-150:]]
    bad = []
    # refactorings the analysis is known not to read (documented in DESIGN 6): meta.json "unreadable_by": {"C11": "why"} -
    # there the check must say so (exit 2, ANALYSIS-ERROR) and must not claim a violation
    try:
        unreadable = json.load(open(os.path.join(d, "meta.json"))).get("unreadable_by", {})
    except Exception:
        unreadable = {}
    try:
        for p in PROPS:
            rc, lines = check(p, tree)
            if p in unreadable:
                if rc != 2:
                    bad.append("%s exit %d (expected the documented ANALYSIS-ERROR): %s" % (p, rc, (lines or ["?"])[0]))
                continue
            if rc != 0:
                bad.append("%s exit %d: %s" % (p, rc, (lines or ["?"])[0]))
    finally:
        sh("git -C %s checkout -- ." % tree)
    return name, ("ok" if not unreadable else "ok(unreadable:%s)" % ",".join(sorted(unreadable))) if not bad else "ALARM", bad[:6]


def main():
    args = sys.argv[1:]
    jobs = 8
    only = None
    if "-j" in args:
        jobs = int(args[args.index("-j") + 1])
    if "--only" in args:
        only = args[args.index("--only") + 1]
    kinds = [a for a in args if a in ("seeds", "refactors", "refresh-meta")] or ["seeds", "refactors"]
    tasks = []
    if "refresh-meta" in kinds:
        tasks += [(refresh_seed, n) for n in sorted(os.listdir(os.path.join(VERIF, "seeded"))) if not only or n.startswith(only)]
    if "seeds" in kinds:
        tasks += [(run_seed, n) for n in sorted(os.listdir(os.path.join(VERIF, "seeded"))) if not only or n.startswith(only)]
    if "refactors" in kinds:
        tasks += [(run_refactor, n) for n in sorted(os.listdir(os.path.join(VERIF, "refactors"))) if not only or n.startswith(only)]
    res = {}
    try:
        with cf.ThreadPoolExecutor(jobs) as ex:
            for name, status, lines in ex.map(lambda t: t[0](t[1]), tasks):
                res[name] = status
                if not status.startswith("ok"):
                    print(name, status)
                    for l in lines:
                        print("     ", l)
                    sys.stdout.flush()
    finally:
        for path in _wts:
            sh("git -C /repo worktree remove --force %s" % path)
    tot = len(res)
    okn = sum(1 for v in res.values() if v.startswith("ok"))
    und = sorted(k for k, v in res.items() if v.startswith("ok("))
    if und:
        print("documented as unreadable (ANALYSIS-ERROR expected and observed):", ", ".join(und))
    print("regress: %d/%d as expected" % (okn, tot))
    return 0 if okn == tot else 1


if __name__ == "__main__":
    sys.exit(main())
