#!/usr/bin/env python3
"""Debug aid: print the summary (returns, mutate sites, loops) of one function in a tree.
Usage: show_terms.py <repo> <qual> [depth]"""
import sys

sys.path.insert(0, "/verif")
from sa import report, symeval, terms as tm  # noqa: E402

repo, qual = sys.argv[1], sys.argv[2]
depth = int(sys.argv[3]) if len(sys.argv) > 3 else 8
ctx = report.Ctx(repo=repo, tier="quick")
s = ctx.S.get(qual)
for r in s.returns:
    print("RETURN", tm.show(r.term, depth))
    print("   pc:", [(tm.show(c, 4), p) for c, p in symeval.pc_conds(r.pc)])
for m in s.by_kind("mutate"):
    print("MUT", m.how, tm.show(m.target, 3) if hasattr(m, "target") else "", "key=", tm.show(m.key, 4) if getattr(m, "key", None) is not None else None, "val=", tm.show(m.val, 5) if getattr(m, "val", None) is not None else None)
    print("   pc:", [(tm.show(c, 4), p) for c, p in symeval.pc_conds(m.pc)])
for k, v in getattr(s, "loops", {}).items():
    print("LOOP", k, tm.show(v[1], 4))
