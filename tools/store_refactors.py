#!/usr/bin/env python3
"""Copy the refactoring patches of agent output dirs /tmp/seed/<ID>.out into /verif/refactors/<ID>-<n>/."""
import json
import os
import shutil
import subprocess
import sys

head = subprocess.run("git -C /repo rev-parse --short HEAD", shell=True, stdout=subprocess.PIPE).stdout.decode().strip()
for ident in sys.argv[1:]:
    out = "/tmp/seed/%s.out" % ident
    try:
        summ = {x["n"]: x for x in json.load(open(os.path.join(out, "summary.json")))}
    except Exception:
        summ = {}
    for n in range(1, 9):
        p = os.path.join(out, "patch_%d.diff" % n)
        if not os.path.exists(p) or os.path.getsize(p) == 0:
            continue
        d = "/verif/refactors/%s-%d" % (ident, n)
        os.makedirs(d, exist_ok=True)
        shutil.copy(p, os.path.join(d, "patch.diff"))
        e = os.path.join(out, "equiv_%d.py" % n)
        if os.path.exists(e):
            shutil.copy(e, os.path.join(d, "equiv.py"))
        m = summ.get(n, {})
        json.dump({"kind": m.get("kind"), "files": m.get("files"), "functions": m.get("functions"), "what_changed": m.get("what_changed"), "why_equivalent": m.get("why_equivalent"), "base_commit": head, "expect": "every check exits 0 (behaviour-preserving refactoring produced by an independent sub-agent; its equiv.py compares the patched package with a pristine copy on random and edge inputs)"}, open(os.path.join(d, "meta.json"), "w"), indent=1)
        print("stored", d)
