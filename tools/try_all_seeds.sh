#!/bin/sh
# usage: try_all_seeds.sh C11 C03 ...   (reads /tmp/seed/<id>.out/patch_N.diff)
for p in "$@"; do
  for n in 1 2 3; do
    f=/tmp/seed/$p.out/patch_$n.diff
    [ -f "$f" ] || continue
    /venv/bin/python /verif/tools/try_seed.py $f /tmp/seed/$p.out/demo_$n.py $p 2>/dev/null | /venv/bin/python -c "
import json,sys
r=json.load(sys.stdin)
fired={k:[l.split(' at ')[0].replace('rule=','') for l in v['lines']][:2] for k,v in r.get('fired',{}).items()}
print('$p/$n demo clean=%s patched=%s target_caught=%s fired=%s' % (r.get('demo_clean'), r.get('demo_patched'), r.get('target_caught'), fired if fired else r.get('apply','-')))
"
  done
done
