#!/usr/bin/env python3
"""Evaluate seeded changes of one agent output dir against all checks, in the agent's own scratch worktree.
   try_round.py <ID> [n ...]      (ID like C02b; worktree /tmp/seed/<ID>, outputs /tmp/seed/<ID>.out)
Static checks only (./vcheck --repo <worktree>); demos and the suite are confirmed by record_seeds.py."""
import concurrent.futures as cf
import glob
import json
import os
import re
import subprocess
import sys

VERIF = "/verif"


def sh(cmd, cwd=None, timeout=900):
    p = subprocess.run(cmd, shell=True, cwd=cwd, stdout=subprocess.PIPE, stderr=subprocess.STDOUT, timeout=timeout)
    return p.returncode, p.stdout.decode("utf-8", "replace")


def check(args):
    p, wt = args
    rc, out = sh("PYTHONDONTWRITEBYTECODE=1 /venv/bin/python -m sa.main %s --repo %s --no-evidence" % (p, wt), cwd=VERIF)
    lines = [l.strip()[:230] for l in out.split("\n") if l.startswith("  rule=") or l.startswith("ANALYSIS-ERROR property")]
    return p, rc, lines


def main():
    ident = sys.argv[1]
    wt = "/tmp/seed/%s" % ident
    outd = "/tmp/seed/%s.out" % ident
    target = ident[:3]
    ns = sys.argv[2:] or sorted(re.findall(r"patch_(\d+)\.diff", " ".join(os.listdir(outd))))
    props = ["C%02d" % i for i in range(1, 21)]
    for n in ns:
        patch = "%s/patch_%s.diff" % (outd, n)
        sh("git -C %s checkout -- ." % wt)
        rc, out = sh("git -C %s apply --whitespace=nowarn %s" % (wt, patch))
        if rc != 0:
            print(ident, n, "APPLY-FAILED", out[-200:])
            continue
        try:
            with cf.ThreadPoolExecutor(10) as ex:
                res = list(ex.map(check, [(p, wt) for p in props]))
        finally:
            sh("git -C %s checkout -- ." % wt)
        viol = [p for p, rc, _ in res if rc == 1]
        ae = [p for p, rc, _ in res if rc == 2]
        status = "TARGET" if target in viol else ("OTHER" if viol else ("AE-ONLY" if ae else "MISSED"))
        print("%s/%s %s viol=%s ae=%s" % (ident, n, status, viol, ae))
        for p, rc, lines in res:
            if rc and (p == target or status != "TARGET"):
                for l in lines[:2]:
                    print("     %s: %s" % (p, l))
        sys.stdout.flush()


if __name__ == "__main__":
    main()
