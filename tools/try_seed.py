#!/usr/bin/env python3
"""Apply a candidate breaking change to /repo, run checks, revert.  Usage:
   try_seed.py <patch.diff> <demo.py> <prop> [--suite]
Prints: demo clean/patched status, per-property check verdicts (all claimed properties)."""
import json
import os
import subprocess
import sys

REPO = "/repo"
VERIF = "/verif"


def sh(cmd, cwd=None, timeout=900):
    p = subprocess.run(cmd, shell=True, cwd=cwd, stdout=subprocess.PIPE, stderr=subprocess.STDOUT, timeout=timeout)
    return p.returncode, p.stdout.decode("utf-8", "replace")


def clean():
    rc, out = sh("git -C %s status --porcelain" % REPO)
    return out.strip() == ""


def main():
    patch, demo, prop = sys.argv[1:4]
    suite = "--suite" in sys.argv
    assert clean(), "/repo is not clean"
    res = {"patch": patch, "prop": prop}
    rc, out = sh("cd /tmp && /venv/bin/python %s" % demo)
    res["demo_clean"] = rc
    rc, out = sh("git -C %s apply --whitespace=nowarn %s" % (REPO, patch))
    if rc != 0:
        res["apply"] = out[-400:]
        print(json.dumps(res, indent=1))
        return
    try:
        rc, out = sh("cd /tmp && /venv/bin/python %s" % demo)
        res["demo_patched"] = rc
        res["demo_patched_tail"] = out.strip().split("\n")[-1][:300]
        if suite:
            rc, out = sh("cd %s && /venv/bin/python -m pytest -q -p no:cacheprovider tests/test_util.py tests/test_input_output.py tests/test_sonify.py tests/test_hierarchy.py 2>&1 | tail -1" % REPO)
            res["suite"] = out.strip()[-120:]
        man = json.load(open(os.path.join(VERIF, "MANIFEST.json")))
        props = [c["property_id"] for c in man["checks"]]
        verdicts = {}
        for p in props:
            rc, out = sh("./vcheck %s" % p, cwd=VERIF)
            lines = [l for l in out.split("\n") if l.startswith("  rule=") or l.startswith("ANALYSIS-ERROR property")]
            if rc != 0:
                verdicts[p] = {"exit": rc, "lines": [l.strip()[:260] for l in lines[:4]]}
        res["fired"] = verdicts
        res["target_caught"] = prop in verdicts and verdicts[prop]["exit"] == 1
        res["any_caught"] = any(v["exit"] == 1 for v in verdicts.values())
    finally:
        sh("git -C %s checkout -- ." % REPO)
        assert clean()
    print(json.dumps(res, indent=1))


if __name__ == "__main__":
    main()
